//! Derives the checked source from the repository's own allocator: the text of
//! /repo/sandbox/src/alloc.rs with exactly two substitutions — its `use std::{...};` header is
//! replaced by imports of loom's atomics and a fault-injectable parent allocator, and
//! `pub const fn new` becomes `pub fn new` (loom atomics have no const constructor).  Every
//! line of the GlobalAlloc methods and of reset_max/get_max/set_limit is the repository's text.
use std::io::Write;

fn main() {
    let src_path = "/repo/sandbox/src/alloc.rs";
    println!("cargo:rerun-if-changed={}", src_path);
    let src = std::fs::read_to_string(src_path).expect("read alloc.rs");
    let start = src.find("use std::{").expect("header start");
    let end = start + src[start..].find("};").expect("header end") + 2;
    let header = &src[start..end];
    for needed in ["GlobalAlloc", "Layout", "System", "AtomicUsize", "Ordering", "ptr"] {
        assert!(header.contains(needed), "unexpected header: {}", header);
    }
    assert_eq!(src.matches("use std::{").count(), 1, "more than one std import block");
    let mut out = String::new();
    out.push_str(&src[..start]);
    out.push_str("use crate::shim::System;\nuse loom::sync::atomic::{AtomicUsize, Ordering};\nuse std::alloc::{GlobalAlloc, Layout};\nuse std::ptr;\n");
    let rest = &src[end..];
    assert_eq!(rest.matches("pub const fn new").count(), 1, "const fn pattern");
    out.push_str(&rest.replace("pub const fn new", "pub fn new"));
    let dest = std::path::Path::new(&std::env::var("OUT_DIR").unwrap()).join("alloc_derived.rs");
    std::fs::File::create(dest).unwrap().write_all(out.as_bytes()).unwrap();
}
