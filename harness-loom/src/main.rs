//! C19 (concurrent half): the repository's allocator source, compiled against loom's atomics,
//! explored under every interleaving (and C11-memory-model execution) of 2-3 threads up to a
//! preemption bound.
//!
//!   mc-alloc-loom list                      number of harness bodies
//!   mc-alloc-loom body <n> <bound|none>     explore one body; prints a JSON line

mod shim {
    use std::alloc::{GlobalAlloc, Layout};
    use std::cell::Cell;

    thread_local! {
        /// fail every k-th parent call (0 = never)
        pub static FAIL_EVERY: Cell<usize> = Cell::new(0);
        pub static CALLS: Cell<usize> = Cell::new(0);
    }

    /// Stand-in for std::alloc::System with fault injection; memory comes from the real one.
    pub struct System;

    fn fail() -> bool {
        let k = FAIL_EVERY.with(|f| f.get());
        if k == 0 {
            return false;
        }
        let n = CALLS.with(|c| {
            c.set(c.get() + 1);
            c.get()
        });
        n % k == 0
    }

    unsafe impl GlobalAlloc for System {
        unsafe fn alloc(&self, layout: Layout) -> *mut u8 {
            if fail() {
                return std::ptr::null_mut();
            }
            std::alloc::System.alloc(layout)
        }
        unsafe fn dealloc(&self, ptr: *mut u8, layout: Layout) {
            std::alloc::System.dealloc(ptr, layout)
        }
        unsafe fn alloc_zeroed(&self, layout: Layout) -> *mut u8 {
            if fail() {
                return std::ptr::null_mut();
            }
            std::alloc::System.alloc_zeroed(layout)
        }
        unsafe fn realloc(&self, ptr: *mut u8, layout: Layout, new_size: usize) -> *mut u8 {
            if fail() {
                return std::ptr::null_mut();
            }
            std::alloc::System.realloc(ptr, layout, new_size)
        }
    }
}

#[allow(dead_code)]
mod derived {
    include!(concat!(env!("OUT_DIR"), "/alloc_derived.rs"));
}

use derived::Alloc;
use loom::sync::Arc;
use std::alloc::{GlobalAlloc, Layout};
use std::sync::atomic::{AtomicU64, Ordering as StdOrdering};
use std::sync::Mutex;

const LIMIT: usize = 100;

#[derive(Clone, Copy, Debug, PartialEq)]
enum Op {
    Alloc(usize),
    Zeroed(usize),
    /// alloc a then realloc to b
    Grow(usize, usize),
    Shrink(usize, usize),
    /// alloc then free
    AllocFree(usize),
}

const OPS: [Op; 8] = [Op::Alloc(40), Op::Alloc(60), Op::Zeroed(70), Op::Grow(40, 70), Op::Grow(10, 60), Op::Shrink(60, 10), Op::AllocFree(60), Op::AllocFree(40)];

#[derive(Clone, Debug)]
struct Body {
    threads: Vec<Vec<Op>>,
    fail_every: usize,
}

fn bodies() -> Vec<Body> {
    let mut out = vec![];
    // 2 threads x 1 op: all ordered pairs, with and without parent faults
    for a in OPS {
        for b in OPS {
            for f in [0usize, 2] {
                out.push(Body { threads: vec![vec![a], vec![b]], fail_every: f });
            }
        }
    }
    // 2 threads x 2 ops over a reduced alphabet
    let small = [Op::Alloc(60), Op::Grow(40, 70), Op::Shrink(60, 10), Op::AllocFree(60)];
    for a in small {
        for b in small {
            for c in small {
                for d in small {
                    out.push(Body { threads: vec![vec![a, b], vec![c, d]], fail_every: 0 });
                }
            }
        }
    }
    // 3 threads x 1 op
    for a in small {
        for b in small {
            for c in small {
                out.push(Body { threads: vec![vec![a], vec![b], vec![c]], fail_every: 0 });
            }
        }
    }
    out
}

/// What one thread observed: per op (live bytes it holds afterwards, peak it can vouch for)
#[derive(Clone, Debug, Default)]
struct ThreadLog {
    live: usize,
    /// sizes this thread successfully held at some point (for the peak bound)
    held_max: usize,
}

fn lay(n: usize) -> Layout {
    Layout::from_size_align(n, 1).unwrap()
}

unsafe fn run_op(a: &Alloc, op: Op, log: &mut ThreadLog, blocks: &mut Vec<(*mut u8, usize)>) {
    let hold = |p: *mut u8, n: usize, log: &mut ThreadLog, blocks: &mut Vec<(*mut u8, usize)>| {
        event(n as i64);
        std::ptr::write_bytes(p, 0xAB, n);
        blocks.push((p, n));
        log.live += n;
        log.held_max = log.held_max.max(log.live);
    };
    match op {
        Op::Alloc(n) => {
            let p = a.alloc(lay(n));
            if !p.is_null() {
                hold(p, n, log, blocks);
            }
        }
        Op::Zeroed(n) => {
            let p = a.alloc_zeroed(lay(n));
            if !p.is_null() {
                assert!((0..n).all(|i| *p.add(i) == 0), "alloc_zeroed memory is not zero");
                hold(p, n, log, blocks);
            }
        }
        Op::Grow(x, y) | Op::Shrink(x, y) => {
            let p = a.alloc(lay(x));
            if !p.is_null() {
                event(x as i64);
                std::ptr::write_bytes(p, 0xCD, x);
                if y < x {
                    event(y as i64 - x as i64);
                }
                let q = a.realloc(p, lay(x), y);
                if q.is_null() && y < x {
                    event(x as i64 - y as i64);
                }
                if !q.is_null() && y > x {
                    event(y as i64 - x as i64);
                }
                if q.is_null() {
                    // refused: original block intact and still owned
                    assert!((0..x).all(|i| *p.add(i) == 0xCD), "refused realloc damaged the block");
                    blocks.push((p, x));
                    log.live += x;
                    log.held_max = log.held_max.max(log.live);
                } else {
                    assert!((0..x.min(y)).all(|i| *q.add(i) == 0xCD), "realloc lost the contents");
                    std::ptr::write_bytes(q, 0xCD, y);
                    blocks.push((q, y));
                    log.live += y;
                    log.held_max = log.held_max.max(log.live).max(log.live - y + x);
                }
            }
        }
        Op::AllocFree(n) => {
            let p = a.alloc(lay(n));
            if !p.is_null() {
                event(n as i64);
                log.held_max = log.held_max.max(log.live + n);
                event(-(n as i64));
                a.dealloc(p, lay(n));
            }
        }
    }
}

static EXECUTIONS: AtomicU64 = AtomicU64::new(0);
/// Real-time order of call/return events.  loom runs one thread at a time, so a plain std
/// atomic (invisible to loom) gives the true total order of this execution.
static CLOCK: AtomicU64 = AtomicU64::new(0);
static EVENTS: Mutex<Vec<(u64, i64)>> = Mutex::new(Vec::new());

/// +n at the RETURN of an operation that made n more bytes live, -n at the CALL of one that
/// frees them: the running sum is a lower bound of the true usage at every instant.
fn event(delta: i64) {
    let t = CLOCK.fetch_add(1, StdOrdering::SeqCst);
    EVENTS.lock().unwrap().push((t, delta));
}
static OUTCOMES: Mutex<Option<std::collections::BTreeSet<String>>> = Mutex::new(None);

fn explore(body: &Body, bound: Option<usize>) {
    let mut b = loom::model::Builder::new();
    b.preemption_bound = bound;
    b.max_branches = 100_000;
    let body = body.clone();
    b.check(move || {
        EXECUTIONS.fetch_add(1, StdOrdering::Relaxed);
        EVENTS.lock().unwrap().clear();
        let a = Arc::new(Alloc::new(LIMIT));
        let mut handles = vec![];
        for ops in body.threads.iter().cloned() {
            let a = a.clone();
            let fail = body.fail_every;
            handles.push(loom::thread::spawn(move || {
                shim::FAIL_EVERY.with(|f| f.set(fail));
                shim::CALLS.with(|c| c.set(0));
                let mut log = ThreadLog::default();
                let mut blocks = vec![];
                for op in ops {
                    unsafe { run_op(&a, op, &mut log, &mut blocks) };
                }
                (log, blocks.iter().map(|b| (b.0 as usize, b.1)).collect::<Vec<_>>())
            }));
        }
        let mut total_live = 0;
        let mut max_single = 0;
        let mut all_blocks = vec![];
        for h in handles {
            let (log, blocks) = h.join().unwrap();
            total_live += log.live;
            max_single = max_single.max(log.held_max);
            all_blocks.extend(blocks);
        }
        // quiescent: peak is read before the reset, usage after it
        let peak = a.get_max();
        a.reset_max();
        let used = a.get_max();
        assert_eq!(used, total_live, "tracked usage differs from the total size of live allocations");
        assert!(total_live <= LIMIT, "live allocations exceed the limit");
        assert!(peak >= total_live, "reported peak {} is below the final usage {}", peak, total_live);
        assert!(peak >= max_single, "reported peak {} is below what one thread alone held ({})", peak, max_single);
        {
            let mut ev = EVENTS.lock().unwrap().clone();
            ev.sort();
            let (mut cur, mut lb) = (0i64, 0i64);
            for (_, d) in ev {
                cur += d;
                lb = lb.max(cur);
            }
            assert!(lb as usize <= LIMIT, "more than the limit was live at one instant ({} > {})", lb, LIMIT);
            assert!(peak as i64 >= lb, "reported peak {} is below the largest usage reached ({})", peak, lb);
        }
        {
            let mut o = OUTCOMES.lock().unwrap();
            o.get_or_insert_with(Default::default).insert(format!("live={} peak={}", total_live, peak));
        }
        for (p, n) in all_blocks {
            unsafe {
                assert!((0..n).all(|i| *(p as *mut u8).add(i) == 0xAB || *(p as *mut u8).add(i) == 0xCD), "block contents damaged");
                a.dealloc(p as *mut u8, lay(n));
            }
        }
        a.reset_max();
        assert_eq!(a.get_max(), 0, "usage is not zero after everything was freed");
    });
}

fn main() {
    let args: Vec<String> = std::env::args().collect();
    let all = bodies();
    match args.get(1).map(|s| s.as_str()) {
        Some("list") => println!("{}", all.len()),
        Some("body") => {
            let n: usize = args[2].parse().unwrap();
            let bound = match args.get(3).map(|s| s.as_str()) {
                Some("none") | None => None,
                Some(b) => Some(b.parse().unwrap()),
            };
            let body = all[n].clone();
            let desc = format!("{:?}", body);
            let d2 = desc.clone();
            std::panic::set_hook(Box::new(move |info| {
                let msg = if let Some(s) = info.payload().downcast_ref::<&str>() { s.to_string() } else if let Some(s) = info.payload().downcast_ref::<String>() { s.clone() } else { "panic".into() };
                println!("{}", serde_json::json!({"body": n, "desc": d2, "violation": msg, "executions": EXECUTIONS.load(StdOrdering::Relaxed)}));
                std::process::exit(1);
            }));
            explore(&body, bound);
            let outcomes: Vec<String> = OUTCOMES.lock().unwrap().clone().unwrap_or_default().into_iter().collect();
            println!("{}", serde_json::json!({"body": n, "desc": desc, "executions": EXECUTIONS.load(StdOrdering::Relaxed), "outcomes": outcomes, "threads": body.threads.len(), "bound": bound}));
        }
        _ => {
            eprintln!("usage: mc-alloc-loom list | body <n> <bound|none>");
            std::process::exit(2);
        }
    }
}
