//! Worker-side stdout capture.  The subject prints complaints with `println!`; the
//! worker's real stdout is the protocol pipe.  At worker start the protocol is moved to
//! a private descriptor and fd 1 is pointed at an append-only scratch file, so "what did
//! this call print" is a cheap offset comparison instead of a dup2 dance per case.

use std::fs::File;
use std::io::Write;
use std::os::unix::io::FromRawFd;
use std::sync::atomic::{AtomicI32, Ordering};

static CAP_FD: AtomicI32 = AtomicI32::new(-1);

/// Returns the protocol channel (a dup of the original stdout).
pub fn init_worker() -> File {
    let proto = unsafe { libc::dup(1) };
    let dir = std::env::var("VERIF_DIR").unwrap_or_else(|_| "/verif".into());
    let _ = std::fs::create_dir_all(format!("{}/target/tmp", dir));
    let path = format!("{}/target/tmp/worker-stdout-{}.txt", dir, std::process::id());
    let cpath = std::ffi::CString::new(path.clone()).unwrap();
    let fd = unsafe { libc::open(cpath.as_ptr(), libc::O_CREAT | libc::O_RDWR | libc::O_TRUNC | libc::O_APPEND, 0o600) };
    if fd >= 0 {
        unsafe {
            libc::dup2(fd, 1);
            libc::unlink(cpath.as_ptr());
        }
        CAP_FD.store(fd, Ordering::SeqCst);
    }
    unsafe { File::from_raw_fd(proto) }
}

pub fn active() -> bool {
    CAP_FD.load(Ordering::SeqCst) >= 0
}

pub fn mark() -> u64 {
    let _ = std::io::stdout().flush();
    let fd = CAP_FD.load(Ordering::SeqCst);
    let off = unsafe { libc::lseek(fd, 0, libc::SEEK_END) };
    // keep the scratch file from growing without bound
    if off > (64 << 20) {
        unsafe { libc::ftruncate(fd, 0) };
        return 0;
    }
    off.max(0) as u64
}

pub fn since(mark: u64) -> String {
    let _ = std::io::stdout().flush();
    let fd = CAP_FD.load(Ordering::SeqCst);
    let end = unsafe { libc::lseek(fd, 0, libc::SEEK_END) }.max(0) as u64;
    if end <= mark {
        return String::new();
    }
    let len = ((end - mark) as usize).min(1 << 20);
    let mut buf = vec![0u8; len];
    let n = unsafe { libc::pread(fd, buf.as_mut_ptr() as *mut libc::c_void, len, mark as libc::off_t) };
    buf.truncate(n.max(0) as usize);
    String::from_utf8_lossy(&buf).into_owned()
}
