//! Evaluation in a forked copy of the calling process.
//!
//! A check that must compare the subject with "a context that has never answered
//! a query" cannot keep such a context around and use it: a `&Context` may hide
//! interior state (a cache behind a `RefCell`, a `Cell` in the date parser), and
//! loading a new database for every step costs 60 ms.  `in_fork` runs a closure
//! in a copy-on-write copy of the process instead (about a millisecond): whatever
//! the closure does to the process's memory is gone when it returns, so the
//! parent's objects stay exactly as they were loaded.
//!
//! The worker thread is the only thread in the child; the closure must not wait
//! for other threads.  The child leaves through `_exit`, so no buffers of the
//! parent are flushed twice.

use crate::{CaseOut, Violation};
use serde_json::{json, Value};
use std::time::{Duration, Instant};

fn write_all(fd: i32, mut data: &[u8]) {
    while !data.is_empty() {
        let n = unsafe { libc::write(fd, data.as_ptr() as *const libc::c_void, data.len()) };
        if n <= 0 {
            return;
        }
        data = &data[n as usize..];
    }
}

/// Runs `f` in a forked copy of the process and returns the bytes it produced.
/// `Err` carries what happened instead: a panic message, a signal, a time-out.
pub fn in_fork<F: FnOnce() -> Vec<u8>>(f: F, limit: Duration) -> Result<Vec<u8>, String> {
    let mut fds = [0i32; 2];
    if unsafe { libc::pipe(fds.as_mut_ptr()) } != 0 {
        return Err("machinery: pipe() failed".into());
    }
    let pid = unsafe { libc::fork() };
    if pid < 0 {
        unsafe {
            libc::close(fds[0]);
            libc::close(fds[1]);
        }
        return Err("machinery: fork() failed".into());
    }
    if pid == 0 {
        unsafe { libc::close(fds[0]) };
        let res = std::panic::catch_unwind(std::panic::AssertUnwindSafe(f));
        match res {
            Ok(bytes) => {
                write_all(fds[1], b"O");
                write_all(fds[1], &bytes);
            }
            Err(_) => {
                write_all(fds[1], b"P");
                write_all(fds[1], crate::last_panic_info().as_bytes());
            }
        }
        unsafe {
            libc::close(fds[1]);
            libc::_exit(0);
        }
    }
    unsafe { libc::close(fds[1]) };
    let deadline = Instant::now() + limit;
    let mut buf: Vec<u8> = vec![];
    let mut chunk = [0u8; 65536];
    let mut timed_out = false;
    loop {
        let left = deadline.saturating_duration_since(Instant::now());
        if left.is_zero() {
            timed_out = true;
            break;
        }
        let mut pfd = libc::pollfd { fd: fds[0], events: libc::POLLIN, revents: 0 };
        let r = unsafe { libc::poll(&mut pfd, 1, left.as_millis().min(1000) as i32) };
        if r < 0 {
            continue; // EINTR
        }
        if r == 0 {
            continue;
        }
        let n = unsafe { libc::read(fds[0], chunk.as_mut_ptr() as *mut libc::c_void, chunk.len()) };
        if n < 0 {
            continue;
        }
        if n == 0 {
            break;
        }
        buf.extend_from_slice(&chunk[..n as usize]);
    }
    unsafe { libc::close(fds[0]) };
    if timed_out {
        unsafe { libc::kill(pid, libc::SIGKILL) };
    }
    let mut status = 0i32;
    unsafe { libc::waitpid(pid, &mut status, 0) };
    if timed_out {
        return Err(format!("no result within {}s", limit.as_secs()));
    }
    match buf.first() {
        Some(b'O') => Ok(buf[1..].to_vec()),
        Some(b'P') => Err(format!("panic: {}", String::from_utf8_lossy(&buf[1..]))),
        _ => {
            if libc::WIFSIGNALED(status) {
                Err(format!("process ended: signal {}", libc::WTERMSIG(status)))
            } else {
                Err(format!("process ended without a result: status {}", status))
            }
        }
    }
}

const COUNTER_NAMES: [&str; 8] = ["transitions", "histories", "full_dumps", "loads_reporting_a_problem", "loads_silent", "states", "steps", "replays"];

pub fn case_to_bytes(out: &CaseOut) -> Vec<u8> {
    json!({
        "outcome": out.outcome,
        "key": out.key,
        "keys": out.keys,
        "counters": out.counters.iter().map(|(n, c)| json!([n, c])).collect::<Vec<_>>(),
        "violations": out.violations.iter().map(|v| json!([v.sig, v.detail])).collect::<Vec<_>>(),
    })
    .to_string()
    .into_bytes()
}

pub fn case_from_bytes(b: &[u8]) -> Result<CaseOut, String> {
    let v: Value = serde_json::from_slice(b).map_err(|e| format!("machinery: unreadable result of a forked case: {}", e))?;
    let mut out = CaseOut::ok(v["outcome"].as_str().unwrap_or("?"));
    out.key = v["key"].as_u64();
    out.keys = v["keys"].as_array().map(|a| a.iter().filter_map(|x| x.as_u64()).collect()).unwrap_or_default();
    for c in v["counters"].as_array().cloned().unwrap_or_default() {
        let name = c[0].as_str().unwrap_or("?");
        let stat: &'static str = COUNTER_NAMES.iter().find(|n| **n == name).copied().unwrap_or_else(|| Box::leak(name.to_string().into_boxed_str()));
        out.counters.push((stat, c[1].as_u64().unwrap_or(0)));
    }
    for x in v["violations"].as_array().cloned().unwrap_or_default() {
        out.violations.push(Violation { sig: x[0].as_str().unwrap_or("?").to_string(), detail: x[1].as_str().unwrap_or("").to_string() });
    }
    Ok(out)
}

/// Runs one case in a forked copy of the worker.  An abnormal end of the copy is raised as a panic
/// in the caller, which the engine attributes to the case like any other panic.
pub fn case_in_fork<F: FnOnce() -> CaseOut>(f: F, limit: Duration) -> CaseOut {
    match in_fork(|| case_to_bytes(&f()), limit) {
        Ok(b) => match case_from_bytes(&b) {
            Ok(o) => o,
            Err(e) => panic!("{}", e),
        },
        Err(e) => panic!("forked case: {}", e),
    }
}
