//! Known-findings file: committed under /verif, never written at run time.
//!
//! An entry with status "open" suppresses (and reports as KNOWN-FINDING) only
//! violations whose signature and case match its deliberately narrow
//! predicates; "fixed" entries suppress nothing.

use serde_json::Value;
use std::path::Path;

#[derive(Debug, Clone)]
pub struct Entry {
    pub id: String,
    pub property: String,
    pub open: bool,
    pub sig_contains: Vec<String>,
    pub case_contains: Vec<String>,
    pub case_any: Vec<String>,
    pub case_equals: Vec<String>,
    pub what: String,
}

pub struct Known {
    pub entries: Vec<Entry>,
}

fn strs(v: &Value) -> Vec<String> {
    v.as_array()
        .map(|a| {
            a.iter()
                .filter_map(|x| x.as_str().map(|s| s.to_string()))
                .collect()
        })
        .unwrap_or_default()
}

pub fn load(path: &Path) -> Result<Known, String> {
    if !path.exists() {
        return Ok(Known { entries: vec![] });
    }
    let s = std::fs::read_to_string(path).map_err(|e| e.to_string())?;
    let v: Value = serde_json::from_str(&s).map_err(|e| e.to_string())?;
    let mut entries = vec![];
    for e in v["findings"].as_array().ok_or("missing findings array")? {
        entries.push(Entry {
            id: e["id"].as_str().ok_or("finding without id")?.to_string(),
            property: e["property"].as_str().ok_or("finding without property")?.to_string(),
            open: e["status"].as_str() == Some("open"),
            sig_contains: strs(&e["sig_contains"]),
            case_contains: strs(&e["case_contains"]),
            case_any: strs(&e["case_any"]),
            case_equals: strs(&e["case_equals"]),
            what: e["what"].as_str().unwrap_or("").to_string(),
        });
    }
    Ok(Known { entries })
}

impl Known {
    pub fn matches(&self, property: &str, sig: &str, case: &str) -> Option<&Entry> {
        self.entries.iter().find(|e| {
            e.open
                && e.property == property
                && !(e.sig_contains.is_empty()
                    && e.case_contains.is_empty()
                    && e.case_any.is_empty()
                    && e.case_equals.is_empty())
                && e.sig_contains.iter().all(|s| sig.contains(s.as_str()))
                && e.case_contains.iter().all(|s| case.contains(s.as_str()))
                && (e.case_any.is_empty() || e.case_any.iter().any(|s| case.contains(s.as_str())))
                && (e.case_equals.is_empty() || e.case_equals.iter().any(|s| case == s))
        })
    }
    pub fn what(&self, id: &str) -> String {
        self.entries
            .iter()
            .find(|e| e.id == id)
            .map(|e| e.what.clone())
            .unwrap_or_default()
    }
}
