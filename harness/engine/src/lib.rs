//! Exhaustive-enumeration engine shared by every check.
//!
//! A check is a `Space`: a finite, index-addressable set of cases.  The
//! coordinator partitions `0..len` into chunks and hands them to worker
//! *processes* (the same binary, `mc worker <id> <tier>`); each worker runs
//! every case of its chunk on the real code under `catch_unwind`, on a thread
//! with an 8 MiB stack, under an address-space limit, with a per-case watchdog.
//! Abnormal ends (timeout, abort, stack overflow) are attributed to the case in
//! flight and become outcomes of that case, which the space classifies.
//!
//! Exit codes: 0 = held on everything explored (known findings are reported but
//! do not fail), 1 = violation, 2 = machinery failure (never a verdict).

use serde_json::{json, Value};
use std::collections::{BTreeMap, HashSet};
use std::io::{BufRead, BufReader, Write};
use std::process::{Child, ChildStdin, ChildStdout, Command, Stdio};
use std::sync::atomic::{AtomicU64, Ordering};
use std::sync::mpsc;
use std::sync::{Arc, Mutex};
use std::time::{Duration, Instant};

pub mod cap;
pub mod forked;
pub mod known;
pub mod util;

#[derive(Clone, Debug)]
pub struct Violation {
    /// Narrow, stable signature used to match known findings.
    pub sig: String,
    /// Human explanation: expected vs observed.
    pub detail: String,
}

#[derive(Default, Debug)]
pub struct CaseOut {
    /// Outcome-histogram bucket.
    pub outcome: String,
    /// Canonical hash of the case if it is non-trivial by the space's rule.
    pub key: Option<u64>,
    /// Extra canonical hashes (e.g. states visited inside one case).
    pub keys: Vec<u64>,
    /// Additional counters summed by the coordinator.
    pub counters: Vec<(&'static str, u64)>,
    pub violations: Vec<Violation>,
}

impl CaseOut {
    pub fn ok(outcome: impl Into<String>) -> CaseOut {
        CaseOut {
            outcome: outcome.into(),
            ..Default::default()
        }
    }
    pub fn key(mut self, k: u64) -> CaseOut {
        self.key = Some(k);
        self
    }
    pub fn viol(mut self, sig: impl Into<String>, detail: impl Into<String>) -> CaseOut {
        self.violations.push(Violation {
            sig: sig.into(),
            detail: detail.into(),
        });
        self
    }
    pub fn count(mut self, name: &'static str, n: u64) -> CaseOut {
        self.counters.push((name, n));
        self
    }
}

#[derive(Clone, Copy, Debug, PartialEq)]
pub enum Abnormal {
    Panic,
    Timeout,
    /// Killed by a signal / abort / stack overflow / allocation failure.
    Died,
}

pub struct Meta {
    pub id: &'static str,
    pub level: &'static str,
    pub rule: String,
    pub assumptions: Vec<String>,
    pub exhaustive: bool,
    /// Extra static coverage fields.
    pub extra: Value,
}

pub trait Space {
    fn meta(&self) -> Meta;
    fn len(&self) -> u64;
    /// The case written out (used for samples, replay files, known-finding matching).
    fn describe(&self, idx: u64) -> String;
    /// Run one case on the real code.  May panic; the engine catches it.
    fn run(&mut self, idx: u64) -> CaseOut;
    /// Called in the worker after a caught panic so the space can rebuild state.
    fn reset(&mut self) {}
    /// Classify an abnormal end of case `idx`.  `info` is the panic location +
    /// message, or a description of the signal.  Default: always a violation.
    fn abnormal(&self, idx: u64, kind: Abnormal, info: &str) -> Option<Violation> {
        let _ = idx;
        Some(Violation {
            sig: format!("{}: {}", kind_name(kind), util::normalise_panic(info)),
            detail: info.to_string(),
        })
    }
    /// Per-case wall limit.
    fn time_limit(&self, _idx: u64) -> Duration {
        Duration::from_secs(5)
    }
    fn chunk(&self) -> u64 {
        2000
    }
    /// Range of cases to re-run in a fresh worker to confirm a violation at `idx`.  Spaces whose
    /// subject may carry hidden state from earlier cases (which would itself break the property)
    /// return the whole prefix, so that the confirmation sees the same history.
    fn confirm_range(&self, idx: u64) -> (u64, u64) {
        (idx, idx + 1)
    }
    /// How many abnormal ends (timeouts, worker deaths) are tolerated before exploration stops.
    fn abnormal_cap(&self) -> u64 {
        48
    }
    /// Index ranges whose cases are slow: scheduled first, one case per chunk.
    fn heavy(&self) -> Vec<(u64, u64)> {
        vec![]
    }
    /// Indices of cases to list as samples (besides first/last).
    fn sample_indices(&self) -> Vec<u64> {
        let n = self.len();
        if n == 0 {
            return vec![];
        }
        let mut v = vec![0, n / 7, n / 3, n / 2, (n / 3) * 2, n - 1];
        v.dedup();
        v
    }
    /// Coverage fields computed from the aggregated counters (e.g. states /
    /// transitions for model-checking-level evidence).
    fn coverage_extra(&self, _agg: &Aggregate) -> Value {
        json!({})
    }
}

pub fn kind_name(k: Abnormal) -> &'static str {
    match k {
        Abnormal::Panic => "panic",
        Abnormal::Timeout => "timeout",
        Abnormal::Died => "died",
    }
}

#[derive(Default)]
pub struct Aggregate {
    pub evaluations: u64,
    pub outcomes: BTreeMap<String, u64>,
    pub counters: BTreeMap<String, u64>,
    pub keys: HashSet<u64>,
    pub violations: Vec<FoundViolation>,
    pub caps: Vec<String>,
}

#[derive(Clone, Debug)]
pub struct FoundViolation {
    pub idx: u64,
    pub case: String,
    pub sig: String,
    pub detail: String,
}

// ---------------------------------------------------------------------------
// Worker side
// ---------------------------------------------------------------------------

static PANIC_INFO: Mutex<String> = Mutex::new(String::new());

/// Message and location of the most recent panic in this process.
pub fn last_panic_info() -> String {
    PANIC_INFO.lock().map(|s| s.clone()).unwrap_or_default()
}

fn install_panic_hook() {
    std::panic::set_hook(Box::new(|info| {
        let loc = info
            .location()
            .map(|l| format!("{}:{}", l.file(), l.line()))
            .unwrap_or_else(|| "?".into());
        let msg = if let Some(s) = info.payload().downcast_ref::<&str>() {
            s.to_string()
        } else if let Some(s) = info.payload().downcast_ref::<String>() {
            s.clone()
        } else {
            "<non-string panic>".into()
        };
        *PANIC_INFO.lock().unwrap() = format!("{} @ {}", msg, loc);
    }));
}

fn hex(keys: &[u64]) -> String {
    let mut s = String::with_capacity(keys.len() * 17);
    for k in keys {
        s.push_str(&format!("{:x},", k));
    }
    s
}

/// Worker main loop: reads `RUN s e careful` lines from stdin.
pub fn worker_main(mut space: Box<dyn Space + Send>) -> ! {
    install_panic_hook();
    let proto = Arc::new(Mutex::new(cap::init_worker()));
    let cur = Arc::new(AtomicU64::new(u64::MAX));
    let started = Arc::new(Mutex::new(Instant::now()));
    let limit_ms = Arc::new(AtomicU64::new(5000));
    {
        let cur = cur.clone();
        let started = started.clone();
        let limit_ms = limit_ms.clone();
        let proto = proto.clone();
        std::thread::spawn(move || loop {
            std::thread::sleep(Duration::from_millis(50));
            let c = cur.load(Ordering::SeqCst);
            if c != u64::MAX {
                let el = started.lock().unwrap().elapsed();
                if el.as_millis() as u64 > limit_ms.load(Ordering::SeqCst) {
                    // make sure it is still the same case
                    if cur.load(Ordering::SeqCst) == c {
                        let mut out = proto.lock().unwrap();
                        let _ = writeln!(out, "TIMEOUT {}", c);
                        let _ = out.flush();
                        std::process::exit(3);
                    }
                }
            }
        });
    }
    let handle = std::thread::Builder::new()
        .stack_size(8 << 20)
        .spawn(move || {
            let stdin = std::io::stdin();
            let mut line = String::new();
            loop {
                line.clear();
                if stdin.lock().read_line(&mut line).unwrap_or(0) == 0 {
                    break;
                }
                let parts: Vec<&str> = line.split_whitespace().collect();
                if parts.len() != 4 || parts[0] != "RUN" {
                    continue;
                }
                let s: u64 = parts[1].parse().unwrap();
                let e: u64 = parts[2].parse().unwrap();
                let careful = parts[3] == "1";
                let mut outcomes: BTreeMap<String, u64> = BTreeMap::new();
                let mut counters: BTreeMap<String, u64> = BTreeMap::new();
                let mut keys: Vec<u64> = vec![];
                let mut viols: Vec<Value> = vec![];
                for idx in s..e {
                    if careful {
                        let mut out = proto.lock().unwrap();
                        let _ = writeln!(out, "AT {}", idx);
                        let _ = out.flush();
                    }
                    limit_ms.store(space.time_limit(idx).as_millis() as u64, Ordering::SeqCst);
                    *started.lock().unwrap() = Instant::now();
                    cur.store(idx, Ordering::SeqCst);
                    let res = std::panic::catch_unwind(std::panic::AssertUnwindSafe(|| {
                        space.run(idx)
                    }));
                    cur.store(u64::MAX, Ordering::SeqCst);
                    match res {
                        Ok(out) => {
                            *outcomes.entry(out.outcome).or_insert(0) += 1;
                            if let Some(k) = out.key {
                                keys.push(k);
                            }
                            keys.extend(out.keys);
                            for (n, c) in out.counters {
                                *counters.entry(n.to_string()).or_insert(0) += c;
                            }
                            for v in out.violations {
                                viols.push(json!({"idx": idx, "sig": v.sig, "detail": v.detail}));
                            }
                        }
                        Err(_) => {
                            let info = PANIC_INFO.lock().unwrap().clone();
                            *outcomes.entry("panic".into()).or_insert(0) += 1;
                            viols.push(json!({"idx": idx, "abnormal": "panic", "info": info}));
                            space.reset();
                        }
                    }
                }
                let msg = json!({"outcomes": outcomes, "counters": counters, "viols": viols});
                let mut out = proto.lock().unwrap();
                let _ = writeln!(out, "DONE {} {} {} {}", s, e, hex(&keys), msg);
                let _ = out.flush();
            }
        })
        .unwrap();
    let _ = handle.join();
    std::process::exit(0);
}

// ---------------------------------------------------------------------------
// Coordinator side
// ---------------------------------------------------------------------------

struct WorkerProc {
    child: Child,
    stdin: ChildStdin,
    stdout: BufReader<ChildStdout>,
}

fn spawn_worker(id: &str, tier: &str, as_limit_kib: u64) -> std::io::Result<WorkerProc> {
    let exe = std::env::current_exe()?;
    let mut child = Command::new("sh")
        .arg("-c")
        .arg(format!(
            "ulimit -v {}; exec \"$0\" \"$@\"",
            as_limit_kib
        ))
        .arg(exe)
        .arg("worker")
        .arg(id)
        .arg(tier)
        .stdin(Stdio::piped())
        .stdout(Stdio::piped())
        .stderr(Stdio::null())
        .env("RUST_BACKTRACE", "0")
        .spawn()?;
    let stdin = child.stdin.take().unwrap();
    let stdout = BufReader::new(child.stdout.take().unwrap());
    Ok(WorkerProc {
        child,
        stdin,
        stdout,
    })
}

enum ChunkEnd {
    Done {
        keys: Vec<u64>,
        msg: Value,
    },
    Timeout(u64),
    /// Worker died; last AT index if known.
    Died(Option<u64>, String),
}

fn run_chunk(w: &mut WorkerProc, s: u64, e: u64, careful: bool) -> ChunkEnd {
    if writeln!(w.stdin, "RUN {} {} {}", s, e, if careful { 1 } else { 0 }).is_err()
        || w.stdin.flush().is_err()
    {
        let st = w.child.wait().map(|s| s.to_string()).unwrap_or_default();
        return ChunkEnd::Died(None, st);
    }
    let mut last_at = None;
    let mut line = String::new();
    loop {
        line.clear();
        match w.stdout.read_line(&mut line) {
            Ok(0) | Err(_) => {
                let st = w.child.wait().map(|s| s.to_string()).unwrap_or_default();
                return ChunkEnd::Died(last_at, st);
            }
            Ok(_) => {}
        }
        if let Some(rest) = line.strip_prefix("AT ") {
            last_at = rest.trim().parse().ok();
        } else if let Some(rest) = line.strip_prefix("TIMEOUT ") {
            let idx = rest.trim().parse().unwrap_or(s);
            let _ = w.child.wait();
            return ChunkEnd::Timeout(idx);
        } else if let Some(rest) = line.strip_prefix("DONE ") {
            let mut it = rest.splitn(4, ' ');
            let _s = it.next();
            let _e = it.next();
            let keys_s = it.next().unwrap_or("");
            let msg_s = it.next().unwrap_or("{}");
            let keys = keys_s
                .split(',')
                .filter(|x| !x.is_empty())
                .filter_map(|x| u64::from_str_radix(x, 16).ok())
                .collect();
            let msg: Value = serde_json::from_str(msg_s.trim()).unwrap_or(json!({}));
            return ChunkEnd::Done { keys, msg };
        }
        // anything else: stray output from the subject (println! in the loader) — ignored
    }
}

pub struct RunCfg {
    pub tier: String,
    pub seed: u64,
    pub jobs: usize,
    pub verif_dir: std::path::PathBuf,
    /// confirmation only: re-run each listed case after the cases that preceded it in its chunk
    pub history_window: bool,
}

impl RunCfg {
    pub fn from_env(tier: &str) -> RunCfg {
        let seed = std::env::var("VERIF_SEED")
            .ok()
            .and_then(|s| s.parse().ok())
            .unwrap_or(0);
        let jobs = std::env::var("VERIF_JOBS")
            .ok()
            .and_then(|s| s.parse().ok())
            .unwrap_or_else(|| {
                std::thread::available_parallelism()
                    .map(|n| n.get())
                    .unwrap_or(8)
            });
        let verif_dir = std::env::var("VERIF_DIR")
            .map(std::path::PathBuf::from)
            .unwrap_or_else(|_| std::path::PathBuf::from("/verif"));
        RunCfg {
            history_window: false,
            tier: tier.to_string(),
            seed,
            jobs,
            verif_dir,
        }
    }
}

fn merge_done(agg: &mut Aggregate, space: &dyn Space, keys: Vec<u64>, msg: &Value, n: u64) {
    agg.evaluations += n;
    agg.keys.extend(keys);
    if let Some(o) = msg.get("outcomes").and_then(|o| o.as_object()) {
        for (k, v) in o {
            *agg.outcomes.entry(k.clone()).or_insert(0) += v.as_u64().unwrap_or(0);
        }
    }
    if let Some(o) = msg.get("counters").and_then(|o| o.as_object()) {
        for (k, v) in o {
            *agg.counters.entry(k.clone()).or_insert(0) += v.as_u64().unwrap_or(0);
        }
    }
    if let Some(vs) = msg.get("viols").and_then(|o| o.as_array()) {
        for v in vs {
            let idx = v["idx"].as_u64().unwrap_or(0);
            if v.get("abnormal").is_some() {
                let info = v["info"].as_str().unwrap_or("");
                if let Some(vi) = space.abnormal(idx, Abnormal::Panic, info) {
                    agg.violations.push(FoundViolation {
                        idx,
                        case: space.describe(idx),
                        sig: vi.sig,
                        detail: vi.detail,
                    });
                }
            } else {
                agg.violations.push(FoundViolation {
                    idx,
                    case: space.describe(idx),
                    sig: v["sig"].as_str().unwrap_or("").to_string(),
                    detail: v["detail"].as_str().unwrap_or("").to_string(),
                });
            }
        }
    }
}

/// Explore the whole space; returns the aggregate.
pub fn explore(
    space: &(dyn Space + Sync),
    cfg: &RunCfg,
    only: Option<Vec<u64>>,
) -> Result<Aggregate, String> {
    let id = space.meta().id;
    let n = space.len();
    let chunk = space.chunk().max(1);
    let mut chunks: Vec<(u64, u64)> = vec![];
    if let Some(list) = only {
        for i in list {
            if cfg.history_window {
                let (a, b) = space.confirm_range(i);
                chunks.push((a.min(i - i % chunk), b));
            } else {
                chunks.push(space.confirm_range(i));
            }
        }
        chunks.sort();
        chunks.dedup();
    } else {
        let heavy = space.heavy();
        let is_heavy = |i: u64| heavy.iter().any(|(a, b)| i >= *a && i < *b);
        let mut s = 0;
        let mut light = vec![];
        while s < n {
            if is_heavy(s) {
                chunks.push((s, s + 1));
                s += 1;
                continue;
            }
            let mut e = (s + chunk).min(n);
            if let Some((a, _)) = heavy.iter().find(|(a, _)| *a > s && *a < e) {
                e = *a;
            }
            light.push((s, e));
            s = e;
        }
        chunks.extend(light);
    }
    let queue = Arc::new(Mutex::new(chunks.into_iter().rev().collect::<Vec<_>>()));
    let agg = Arc::new(Mutex::new(Aggregate::default()));
    let as_limit: u64 = std::env::var("VERIF_AS_KIB")
        .ok()
        .and_then(|s| s.parse().ok())
        .unwrap_or(2 << 20);
    let jobs = cfg.jobs.max(1);
    let abn_cap: u64 = std::env::var("VERIF_ABNORMAL_CAP")
        .ok()
        .and_then(|s| s.parse().ok())
        .unwrap_or_else(|| space.abnormal_cap());
    let abn = Arc::new(AtomicU64::new(0));
    let (errtx, errrx) = mpsc::channel::<String>();
    std::thread::scope(|sc| {
        for _ in 0..jobs {
            let queue = queue.clone();
            let agg = agg.clone();
            let errtx = errtx.clone();
            let tier = cfg.tier.clone();
            let abn = abn.clone();
            sc.spawn(move || {
                let mut w = match spawn_worker(id, &tier, as_limit) {
                    Ok(w) => w,
                    Err(e) => {
                        let _ = errtx.send(format!("cannot spawn worker: {}", e));
                        return;
                    }
                };
                let mut respawns = 0u32;
                loop {
                    if abn.load(Ordering::SeqCst) > abn_cap {
                        break;
                    }
                    let next = queue.lock().unwrap().pop();
                    let (mut s, e) = match next {
                        Some(c) => c,
                        None => break,
                    };
                    let mut careful = false;
                    while s < e {
                        if abn.load(Ordering::SeqCst) > abn_cap {
                            queue.lock().unwrap().push((s, e));
                            break;
                        }
                        match run_chunk(&mut w, s, e, careful) {
                            ChunkEnd::Done { keys, msg } => {
                                merge_done(&mut agg.lock().unwrap(), space, keys, &msg, e - s);
                                s = e;
                            }
                            ChunkEnd::Timeout(idx) => {
                                abn.fetch_add(1, Ordering::SeqCst);
                                // cases s..idx of this chunk are lost with the worker: rerun them
                                // carefully (cheap: they passed before), then record idx.
                                let mut a = agg.lock().unwrap();
                                a.evaluations += 1;
                                *a.outcomes.entry("timeout".into()).or_insert(0) += 1;
                                if let Some(v) = space.abnormal(
                                    idx,
                                    Abnormal::Timeout,
                                    &format!("no result within {:?}", space.time_limit(idx)),
                                ) {
                                    a.violations.push(FoundViolation {
                                        idx,
                                        case: space.describe(idx),
                                        sig: v.sig,
                                        detail: v.detail,
                                    });
                                }
                                drop(a);
                                respawns += 1;
                                match spawn_worker(id, &tier, as_limit) {
                                    Ok(nw) => w = nw,
                                    Err(e) => {
                                        let _ = errtx.send(format!("respawn failed: {}", e));
                                        return;
                                    }
                                }
                                if idx > s {
                                    // redo the prefix that was in the lost chunk
                                    queue.lock().unwrap().push((s, idx));
                                }
                                s = idx + 1;
                            }
                            ChunkEnd::Died(at, status) => {
                                respawns += 1;
                                if respawns > 2000 {
                                    let _ = errtx.send("too many worker deaths".into());
                                    return;
                                }
                                match spawn_worker(id, &tier, as_limit) {
                                    Ok(nw) => w = nw,
                                    Err(e) => {
                                        let _ = errtx.send(format!("respawn failed: {}", e));
                                        return;
                                    }
                                }
                                if !careful {
                                    careful = true; // find the culprit
                                    continue;
                                }
                                abn.fetch_add(1, Ordering::SeqCst);
                                let idx = match at {
                                    Some(i) => i,
                                    None => {
                                        let _ = errtx.send(format!(
                                            "worker died before starting a case ({})",
                                            status
                                        ));
                                        return;
                                    }
                                };
                                let mut a = agg.lock().unwrap();
                                a.evaluations += 1;
                                *a.outcomes.entry("died".into()).or_insert(0) += 1;
                                if let Some(v) = space.abnormal(
                                    idx,
                                    Abnormal::Died,
                                    &format!("worker process ended: {}", status),
                                ) {
                                    a.violations.push(FoundViolation {
                                        idx,
                                        case: space.describe(idx),
                                        sig: v.sig,
                                        detail: v.detail,
                                    });
                                }
                                drop(a);
                                if idx > s {
                                    queue.lock().unwrap().push((s, idx));
                                }
                                s = idx + 1;
                            }
                        }
                    }
                }
                let _ = w.child.kill();
                let _ = w.child.wait();
            });
        }
    });
    drop(errtx);
    if let Ok(e) = errrx.try_recv() {
        return Err(e);
    }
    let mut agg = Arc::try_unwrap(agg)
        .map_err(|_| "agg still shared".to_string())?
        .into_inner()
        .unwrap();
    let left: u64 = queue.lock().unwrap().iter().map(|(s, e)| e - s).sum();
    if left > 0 {
        agg.caps.push(format!(
            "exploration stopped after {} abnormal ends (timeouts/aborts, cap {}): {} cases unexplored",
            abn.load(Ordering::SeqCst),
            abn_cap,
            left
        ));
    }
    Ok(agg)
}

/// Full check: explore, confirm, match known findings, write evidence + replays.
/// Returns the process exit code.
pub fn check_main(space: &(dyn Space + Sync), cfg: &RunCfg) -> i32 {
    let t0 = Instant::now();
    let meta = space.meta();
    let id = meta.id;
    let n = space.len();
    eprintln!("[{}] tier={} cases={} jobs={}", id, cfg.tier, n, cfg.jobs);
    let mut agg = match explore(space, cfg, None) {
        Ok(a) => a,
        Err(e) => {
            eprintln!("MACHINERY-ERROR {}: {}", id, e);
            return 2;
        }
    };
    // only() reruns double-count evaluations of lost prefixes; clamp for reporting
    if agg.evaluations > n {
        agg.evaluations = n;
    }

    // Known findings
    let known = match known::load(&cfg.verif_dir.join("known-findings.json")) {
        Ok(k) => k,
        Err(e) => {
            eprintln!("MACHINERY-ERROR {}: known-findings.json: {}", id, e);
            return 2;
        }
    };
    agg.violations.sort_by_key(|v| v.idx);
    let mut unknown: Vec<FoundViolation> = vec![];
    let mut known_hits: BTreeMap<String, (u64, String)> = BTreeMap::new();
    for v in &agg.violations {
        match known.matches(id, &v.sig, &v.case) {
            Some(k) => {
                let e = known_hits
                    .entry(k.id.clone())
                    .or_insert((0, v.case.clone()));
                e.0 += 1;
            }
            None => unknown.push(v.clone()),
        }
    }

    // Confirm: one representative per distinct unknown signature is re-run in a fresh worker.
    let mut confirmed: Vec<FoundViolation> = vec![];
    let mut seen_sig: HashSet<String> = HashSet::new();
    let mut reps: Vec<u64> = vec![];
    for v in &unknown {
        if seen_sig.insert(v.sig.clone()) {
            reps.push(v.idx);
        }
    }
    reps.truncate(40);
    if !reps.is_empty() {
        let cfg1 = RunCfg {
            history_window: false,
            tier: cfg.tier.clone(),
            seed: cfg.seed,
            jobs: cfg.jobs.min(reps.len()),
            verif_dir: cfg.verif_dir.clone(),
        };
        match explore(space, &cfg1, Some(reps.clone())) {
            Ok(again) => {
                let again_set: HashSet<(u64, String)> = again
                    .violations
                    .iter()
                    .map(|v| (v.idx, v.sig.clone()))
                    .collect();
                let mut again_set = again_set;
                // A violation that does not recur when its case runs alone may depend on what ran
                // before it in the same worker - hidden state in the subject, which breaks the
                // property by itself.  Second stage: re-run it after the cases that preceded it in
                // its chunk; if it recurs there it is reported, marked as history-dependent.
                let lonely: Vec<u64> = unknown
                    .iter()
                    .filter(|v| reps.contains(&v.idx) && !again_set.contains(&(v.idx, v.sig.clone())) && !v.sig.starts_with("timeout"))
                    .map(|v| v.idx)
                    .collect();
                if !lonely.is_empty() {
                    let cfg2 = RunCfg { history_window: true, tier: cfg.tier.clone(), seed: cfg.seed, jobs: cfg.jobs.min(lonely.len()), verif_dir: cfg.verif_dir.clone() };
                    if let Ok(hist) = explore(space, &cfg2, Some(lonely.clone())) {
                        for v in hist.violations {
                            if lonely.contains(&v.idx) {
                                eprintln!("[{}] violation recurs only after the preceding cases of its chunk (history-dependent): {}", id, util::clip(&v.case, 100));
                                agg.caps.push(format!("history-dependent violation (recurs only after the preceding cases of its chunk): {}", util::clip(&v.case, 100)));
                                again_set.insert((v.idx, v.sig.clone()));
                            }
                        }
                    }
                }
                // Third stage: what recurs neither alone nor after its history may still be the subject
                // behaving differently from run to run (iteration order of a hashed collection, an
                // address, the time).  The case is repeated alone, each time in fresh workers; if the
                // same violation shows again in any repetition it is reported as intermittent - for code
                // that is meant to be a function of its input that is a defect by itself.
                let still_lonely: Vec<u64> = unknown
                    .iter()
                    .filter(|v| reps.contains(&v.idx) && !again_set.contains(&(v.idx, v.sig.clone())) && !v.sig.starts_with("timeout"))
                    .map(|v| v.idx)
                    .collect();
                if !still_lonely.is_empty() {
                    let mut hits: BTreeMap<(u64, String), u32> = BTreeMap::new();
                    let rounds = 8;
                    for _ in 0..rounds {
                        let cfg3 = RunCfg { history_window: false, tier: cfg.tier.clone(), seed: cfg.seed, jobs: cfg.jobs.min(still_lonely.len()), verif_dir: cfg.verif_dir.clone() };
                        if let Ok(rep) = explore(space, &cfg3, Some(still_lonely.clone())) {
                            for v in rep.violations {
                                if still_lonely.contains(&v.idx) {
                                    *hits.entry((v.idx, v.sig.clone())).or_insert(0) += 1;
                                }
                            }
                        }
                    }
                    for ((idx, sig), n) in hits {
                        if unknown.iter().any(|v| v.idx == idx && v.sig == sig) {
                            eprintln!("[{}] violation is intermittent: recurred in {} of {} repetitions of the case alone (idx {})", id, n, rounds, idx);
                            agg.caps.push(format!("intermittent violation (recurred in {} of {} repetitions of the case alone - the code under test does not behave as a function of its input): idx {} {}", n, rounds, idx, util::clip(&sig, 80)));
                            again_set.insert((idx, sig));
                        }
                    }
                }
                let mut dropped: HashSet<String> = HashSet::new();
                let mut unreproduced: Vec<FoundViolation> = vec![];
                for v in &unknown {
                    if reps.contains(&v.idx) && !again_set.contains(&(v.idx, v.sig.clone())) {
                        if v.sig.starts_with("timeout") {
                            // a time limit that is exceeded once under load and met when the case runs
                            // alone is a property of the machine, not of the code: recorded, not reported
                            eprintln!("[{}] timeout did not recur in isolation, dropped: {}", id, util::clip(&v.case, 100));
                            agg.caps.push(format!("timeout did not recur in isolation: {}", util::clip(&v.case, 100)));
                            dropped.insert(v.sig.clone());
                            continue;
                        }
                        unreproduced.push(v.clone());
                        dropped.insert(v.sig.clone());
                    }
                }
                confirmed = unknown.iter().filter(|v| !dropped.contains(&v.sig)).cloned().collect();
                if !unreproduced.is_empty() {
                    if confirmed.is_empty() {
                        // nothing of what was seen can be shown again: a machinery error, not a verdict
                        let v = &unreproduced[0];
                        eprintln!(
                            "MACHINERY-ERROR {}: violation did not reproduce: idx={} sig={} case={}",
                            id, v.idx, v.sig, v.case
                        );
                        return 2;
                    }
                    // other violations of this run are confirmed, so the verdict stands; what recurs
                    // neither alone nor after its chunk's history (state from still earlier cases of
                    // the same worker) is recorded, not reported
                    for v in &unreproduced {
                        eprintln!("[{}] seen once, not reproduced (depends on earlier history of its worker), not reported: {}", id, util::clip(&v.case, 100));
                        agg.caps.push(format!("seen once, not reproduced, not reported: {} / {}", util::clip(&v.sig, 80), util::clip(&v.case, 100)));
                    }
                }
            }
            Err(e) => {
                eprintln!("MACHINERY-ERROR {}: confirmation run failed: {}", id, e);
                return 2;
            }
        }
    }

    // full list of this run's violations (scratch, for inspection)
    {
        let dir = cfg.verif_dir.join("target").join("violations");
        let _ = std::fs::create_dir_all(&dir);
        let mut body = String::new();
        for v in agg.violations.iter().take(20000) {
            body.push_str(&json!({"idx": v.idx, "case": v.case, "sig": v.sig, "detail": v.detail}).to_string());
            body.push('\n');
        }
        let _ = std::fs::write(dir.join(format!("{}.jsonl", id)), body);
    }

    // Replays
    let replay_dir = cfg.verif_dir.join("replays").join(id);
    let _ = std::fs::remove_dir_all(&replay_dir);
    let mut printed = 0;
    let mut seen_sig: HashSet<String> = HashSet::new();
    for v in &confirmed {
        let first_of_sig = seen_sig.insert(v.sig.clone());
        if !first_of_sig || printed >= 25 {
            continue;
        }
        let _ = std::fs::create_dir_all(&replay_dir);
        let path = replay_dir.join(format!("{}.json", printed));
        // which build of the harness saw it: "release" when the check ran its release-profile pass
        let profile = std::env::var("VERIF_PROFILE").unwrap_or_else(|_| "checked".to_string());
        let body = json!({
            "property": id, "tier": cfg.tier, "index": v.idx, "case": v.case,
            "signature": v.sig, "observed": v.detail, "profile": profile,
            "how_to_replay": format!("./check {} --replay {}", id, path.display()),
        });
        let _ = std::fs::write(&path, serde_json::to_string_pretty(&body).unwrap());
        println!("VIOLATION property={} replay={}", id, path.display());
        eprintln!("  case: {}\n  sig: {}\n  {}", v.case, v.sig, v.detail);
        printed += 1;
    }
    for (kid, (count, case)) in &known_hits {
        let what = known.what(kid);
        println!(
            "KNOWN-FINDING: property={} {} — {} ({} case(s) in this run, e.g. {})",
            id,
            kid,
            what,
            count,
            util::clip(case, 120)
        );
    }

    // Evidence
    let mut samples: Vec<Value> = vec![];
    for i in space.sample_indices() {
        if i < n {
            samples.push(json!({"index": i, "case": space.describe(i)}));
        }
    }
    let distinct = agg.keys.len() as u64;
    let mut coverage = json!({
        "evaluations": agg.evaluations,
        "distinct_nontrivial": distinct,
        "rule": meta.rule,
        "samples": samples,
        "exhaustive": meta.exhaustive && agg.caps.is_empty(),
        "space_size": n,
        "outcome_histogram": agg.outcomes,
        "counters": agg.counters,
        "caps": agg.caps,
        "known_findings_hit": known_hits.iter().map(|(k, v)| json!({"id": k, "cases": v.0})).collect::<Vec<_>>(),
        "distinct_violation_signatures": confirmed.iter().map(|v| v.sig.clone()).collect::<std::collections::BTreeSet<_>>(),
    });
    merge_json(&mut coverage, &meta.extra);
    merge_json(&mut coverage, &space.coverage_extra(&agg));
    let ev = json!({
        "property_id": id,
        "tier": cfg.tier,
        "seed": cfg.seed,
        "level": meta.level,
        "coverage": coverage,
        "assumptions": meta.assumptions,
        "wall_s": t0.elapsed().as_secs_f64(),
        "violations": confirmed.len(),
    });
    let evdir = cfg.verif_dir.join("evidence");
    let _ = std::fs::create_dir_all(&evdir);
    if let Err(e) = std::fs::write(
        evdir.join(format!("{}.json", id)),
        serde_json::to_string_pretty(&ev).unwrap(),
    ) {
        eprintln!("MACHINERY-ERROR {}: cannot write evidence: {}", id, e);
        return 2;
    }
    eprintln!(
        "[{}] evaluations={} distinct_nontrivial={} outcomes={:?} violations={} known={} wall={:.1}s",
        id,
        agg.evaluations,
        distinct,
        agg.outcomes,
        confirmed.len(),
        known_hits.len(),
        t0.elapsed().as_secs_f64()
    );
    if confirmed.is_empty() {
        0
    } else {
        1
    }
}

pub fn merge_json(a: &mut Value, b: &Value) {
    if let (Some(a), Some(b)) = (a.as_object_mut(), b.as_object()) {
        for (k, v) in b {
            a.insert(k.clone(), v.clone());
        }
    }
}

/// Replay the case recorded in a replay file, in-process (no explorer, no worker pool).
pub fn replay_main(space: &mut dyn Space, path: &str) -> i32 {
    let body: Value = match std::fs::read_to_string(path)
        .map_err(|e| e.to_string())
        .and_then(|s| serde_json::from_str(&s).map_err(|e| e.to_string()))
    {
        Ok(b) => b,
        Err(e) => {
            eprintln!("cannot read replay file: {}", e);
            return 2;
        }
    };
    let idx = body["index"].as_u64().unwrap_or(0);
    let id = space.meta().id;
    eprintln!("replaying {} index {}: {}", id, idx, space.describe(idx));
    if space.describe(idx) != body["case"].as_str().unwrap_or("") {
        eprintln!("note: the case at this index differs from the recorded one (tier or alphabets changed); replaying the index of the current alphabet");
    }
    install_panic_hook();
    let res = std::panic::catch_unwind(std::panic::AssertUnwindSafe(|| space.run(idx)));
    match res {
        Ok(out) => {
            if out.violations.is_empty() {
                println!("replay: property held on this case (outcome {})", out.outcome);
                0
            } else {
                for v in out.violations {
                    println!("VIOLATION property={} replay={}", id, path);
                    eprintln!("  sig: {}\n  {}", v.sig, v.detail);
                }
                1
            }
        }
        Err(_) => {
            let info = PANIC_INFO.lock().unwrap().clone();
            match space.abnormal(idx, Abnormal::Panic, &info) {
                Some(v) => {
                    println!("VIOLATION property={} replay={}", id, path);
                    eprintln!("  sig: {}\n  {}", v.sig, v.detail);
                    1
                }
                None => 0,
            }
        }
    }
}
