use std::hash::{Hash, Hasher};

pub fn hash64<T: Hash + ?Sized>(t: &T) -> u64 {
    let mut h = Fnv(0xcbf29ce484222325);
    t.hash(&mut h);
    h.finish()
}

/// Deterministic FNV-1a (std's DefaultHasher is also deterministic, but keep it explicit).
pub struct Fnv(pub u64);
impl Hasher for Fnv {
    fn finish(&self) -> u64 {
        self.0
    }
    fn write(&mut self, bytes: &[u8]) {
        for b in bytes {
            self.0 ^= *b as u64;
            self.0 = self.0.wrapping_mul(0x100000001b3);
        }
    }
}

pub fn clip(s: &str, n: usize) -> String {
    if s.chars().count() <= n {
        s.to_string()
    } else {
        let t: String = s.chars().take(n).collect();
        format!("{}…", t)
    }
}

/// Strip digits runs and quoted payloads so that panics at one site share a signature.
pub fn normalise_panic(info: &str) -> String {
    // keep "message @ file:line"; shorten very long messages
    let (msg, loc) = match info.rfind(" @ ") {
        Some(i) => (&info[..i], &info[i + 3..]),
        None => (info, ""),
    };
    // strip /repo prefix and line number kept (site identity)
    let loc = loc.trim_start_matches("/repo/");
    // third-party crates: keep "<crate>-<version>/src/..." only
    let loc = match loc.find("/registry/src/") {
        Some(i) => {
            let rest = &loc[i + "/registry/src/".len()..];
            rest.split_once('/').map(|(_, r)| r).unwrap_or(rest)
        }
        None => loc,
    };
    let mut m = String::new();
    let mut last_digit = false;
    for c in msg.chars() {
        if c.is_ascii_digit() {
            if !last_digit {
                m.push('#');
            }
            last_digit = true;
        } else {
            last_digit = false;
            m.push(c);
        }
    }
    let m = clip(&m, 100);
    // file without line number: survives unrelated edits above the site
    let file = loc.rsplit_once(':').map(|(f, _)| f).unwrap_or(loc);
    format!("{} @ {}", m, file)
}

/// Mixed-radix decoding: idx -> digits (least significant first dimension last).
pub fn decode(mut idx: u64, dims: &[u64]) -> Vec<u64> {
    let mut out = vec![0; dims.len()];
    for i in (0..dims.len()).rev() {
        let d = dims[i].max(1);
        out[i] = idx % d;
        idx /= d;
    }
    out
}

pub fn product(dims: &[u64]) -> u64 {
    dims.iter().fold(1u64, |a, b| a.saturating_mul((*b).max(1)))
}

/// A list of product families; `locate` maps a global index to (family, digits).
#[derive(Default, Clone)]
pub struct Fams {
    pub fams: Vec<(String, Vec<u64>, u64)>,
}

impl Fams {
    pub fn add(&mut self, name: &str, dims: Vec<u64>) -> usize {
        let size = if dims.iter().any(|d| *d == 0) { 0 } else { product(&dims) };
        self.fams.push((name.to_string(), dims, size));
        self.fams.len() - 1
    }
    pub fn total(&self) -> u64 {
        self.fams.iter().map(|f| f.2).sum()
    }
    pub fn locate(&self, mut idx: u64) -> (usize, Vec<u64>) {
        for (i, f) in self.fams.iter().enumerate() {
            if idx < f.2 {
                return (i, decode(idx, &f.1));
            }
            idx -= f.2;
        }
        panic!("index out of range");
    }
    pub fn name(&self, i: usize) -> &str {
        &self.fams[i].0
    }
    pub fn summary(&self) -> Vec<serde_json::Value> {
        self.fams
            .iter()
            .map(|f| serde_json::json!({"family": f.0, "dims": f.1, "cases": f.2}))
            .collect()
    }
    /// first index of each family (useful as samples)
    pub fn starts(&self) -> Vec<u64> {
        let mut v = vec![];
        let mut s = 0;
        for f in &self.fams {
            if f.2 > 0 {
                v.push(s);
                v.push(s + f.2 / 2);
            }
            s += f.2;
        }
        v
    }
}
