//! C18 — sandbox: one reply per request, and recovery after any failure.
//! Every fault sequence up to a length bound is run against the real `Sandbox` with real
//! child processes; one parent process per sequence.

use engine::util::{decode, hash64, Fams};
use engine::{CaseOut, Meta, Space};
use rink_sandbox::{Sandbox, Service};
use serde_derive::{Deserialize, Serialize};
use serde_json::{json, Value};
use std::ffi::OsString;
use std::io::Error as IoError;
use std::time::{Duration, Instant};

const TIMEOUT_MS: u64 = 700;
const MEM_LIMIT: usize = 64 << 20;
const KINDS: [char; 10] = ['A', 'P', 'S', 'M', 'X', 'B', 'L', 'U', 'H', 'R'];
const WORK_MS: u64 = 200;
const BIG_REPLY: usize = 20 << 20;
const FILL: usize = 30 << 20;
const MEM_KINDS: [char; 4] = ['A', 'F', 'E', 'R'];
/// nearly the whole limit, but legal on its own: whatever an earlier request left behind in the child is missing here
const FILL_BIG: usize = 46 << 20;
const IDLE_KINDS: [char; 4] = ['A', 'W', 'G', 'g'];
const MARKER: &str = "c18-deliberate-panic";

#[derive(Serialize, Deserialize, Debug)]
pub enum Req {
    Add(i64, i64),
    Panic(i64),
    LongPanic(i64, usize),
    Sleep(u64, i64),
    Alloc(usize, i64),
    Exit(i32, i64),
    Big(Vec<u8>, i64),
    BigReply(usize, i64),
    /// a legal allocation well inside the memory limit
    Fill(usize, i64),
    /// holds `from` bytes and asks for `to` with a fallible call: the limit may refuse, the request answers either way
    Grow(usize, usize, i64),
}

#[derive(Serialize, Deserialize, Debug)]
pub struct Res {
    value: i64,
    pid: u32,
    len: usize,
    sum: u64,
    data: Vec<u8>,
}

#[derive(Serialize, Deserialize, Clone)]
pub struct Cfg {
    timeout_ms: u64,
    mem: usize,
}

pub struct TestService;

impl Service for TestService {
    type Req = Req;
    type Res = Res;
    type Config = Cfg;

    fn args(_config: &Cfg) -> Vec<OsString> {
        vec!["child".into()]
    }
    fn timeout(config: &Cfg) -> Duration {
        Duration::from_millis(config.timeout_ms)
    }
    fn create(config: Cfg) -> Result<Self, IoError> {
        crate::GLOBAL.set_limit(config.mem);
        Ok(TestService)
    }
    fn handle(&self, request: Req) -> Res {
        let pid = std::process::id();
        match request {
            Req::Add(a, b) => Res { value: a + b, pid, len: 0, sum: 0, data: vec![] },
            Req::Panic(tag) => panic!("{} {}", MARKER, tag),
            // a long report in a multi-byte script: any byte offset is likely to fall inside a character
            // four-byte characters after `pad` one-byte ones: whatever byte offset a consumer cuts at,
            // three of the four paddings put it inside a character
            Req::LongPanic(tag, pad) => panic!("{} {} {}{}", MARKER, tag, "x".repeat(pad), "\u{1d4b3}".repeat(3000)),
            Req::Sleep(ms, tag) => {
                std::thread::sleep(Duration::from_millis(ms));
                Res { value: tag, pid, len: 0, sum: 0, data: vec![] }
            }
            Req::Alloc(n, tag) => {
                let v: Vec<u8> = vec![1u8; n];
                Res { value: tag, pid, len: v.len(), sum: v.iter().map(|x| *x as u64).sum(), data: vec![] }
            }
            Req::Fill(n, tag) => {
                let v: Vec<u8> = vec![1u8; n];
                Res { value: tag, pid, len: v.len(), sum: v.iter().map(|x| *x as u64).sum(), data: vec![] }
            }
            Req::Grow(from, to, tag) => {
                let mut v: Vec<u8> = vec![1u8; from];
                let grown = v.try_reserve_exact(to - from).is_ok();
                Res { value: if grown { tag } else { -1 }, pid, len: v.len(), sum: 0, data: vec![] }
            }
            Req::Exit(code, _tag) => std::process::exit(code),
            Req::Big(data, tag) => Res { value: tag, pid, len: data.len(), sum: data.iter().map(|x| *x as u64).sum(), data: vec![] },
            // a small request with a large reply (larger than any sensible frame cap a reader might apply)
            Req::BigReply(n, tag) => Res { value: tag, pid, len: n, sum: 0, data: (0..n).map(|k| (k % 251) as u8).collect() },
        }
    }
}

pub fn child_main() -> ! {
    rink_sandbox::become_child::<TestService, _>(&crate::GLOBAL)
}

fn big_payload(i: usize) -> Vec<u8> {
    (0..(2usize << 20)).map(|k| ((k * 31 + i * 7) % 251) as u8).collect()
}

/// One parent process: runs the sequence and prints one JSON line per request.
pub fn seq_main(kinds: &str, gap_ms: u64) -> ! {
    let cfg = Cfg { timeout_ms: TIMEOUT_MS, mem: MEM_LIMIT };
    let kinds: Vec<char> = kinds.chars().collect();
    let res: Result<(), String> = async_std::task::block_on(async move {
        let sandbox = Sandbox::<TestService>::new(cfg).await.map_err(|e| e.to_string())?;
        for (i, k) in kinds.iter().enumerate() {
            let tag = 1000 + i as i64;
            let req = match k {
                'A' => Req::Add(tag, 7 * tag),
                'P' => Req::Panic(tag),
                'U' => Req::LongPanic(tag, 0),
                '1' | '2' | '3' => Req::LongPanic(tag, *k as usize - '0' as usize),
                // larger than the pipe capacity AND the child's memory limit: the child dies reading it
                'H' => Req::Big(vec![7u8; MEM_LIMIT + (16 << 20)], tag),
                'R' => Req::BigReply(BIG_REPLY, tag),
                'S' => Req::Sleep(TIMEOUT_MS * 10, tag),
                // overruns the limit only slightly: its late reply must never reach a later request
                'L' => Req::Sleep(TIMEOUT_MS + TIMEOUT_MS / 2, tag),
                // a slow but legal request (well inside the limit)
                'W' => Req::Sleep(WORK_MS, tag),
                // idle time between two requests (no request is sent): longer / shorter than the limit
                'G' | 'g' => {
                    async_std::task::sleep(Duration::from_millis(if *k == 'G' { TIMEOUT_MS + TIMEOUT_MS / 2 } else { TIMEOUT_MS / 2 })).await;
                    continue;
                }
                'M' => Req::Alloc(MEM_LIMIT * 4, tag),
                // legal: 30 MiB of a 64 MiB limit
                'F' => Req::Fill(FILL, tag),
                // legal on its own: 46 MiB of 64 MiB
                'V' => Req::Fill(FILL_BIG, tag),
                // holds 40 MiB and asks for 60 MiB with try_reserve: refused or granted, answered either way
                'E' => Req::Grow(40 << 20, 60 << 20, tag),
                'X' => Req::Exit(3, tag),
                _ => Req::Big(big_payload(i), tag),
            };
            let t0 = Instant::now();
            let deadline = Duration::from_millis(TIMEOUT_MS + 2500);
            let r = async_std::future::timeout(deadline, sandbox.execute(req)).await;
            let el = t0.elapsed().as_millis() as u64;
            let line = match r {
                Err(_) => json!({"i": i, "kind": k.to_string(), "result": "WEDGED", "ms": el}),
                Ok(Ok(resp)) => json!({"i": i, "kind": k.to_string(), "result": "ok", "value": resp.result.value, "pid": resp.result.pid, "len": resp.result.len, "sum": resp.result.sum, "data_len": resp.result.data.len(), "data_sum": resp.result.data.iter().map(|x| *x as u64).sum::<u64>(), "ms": el}),
                Ok(Err(e)) => json!({"i": i, "kind": k.to_string(), "result": "err", "error": format!("{:?}", e).split('(').next().unwrap_or("").to_string(), "message": e.to_string(), "ms": el}),
            };
            println!("{}", line);
            if line["result"] == "WEDGED" {
                return Ok(());
            }
            if *k != 'A' && *k != 'B' && gap_ms > 0 {
                // (for 'L' a 400 ms gap ends just as the abandoned request's late reply is written)
                async_std::task::sleep(Duration::from_millis(gap_ms)).await;
            }
        }
        let _ = sandbox.terminate().await;
        Ok(())
    });
    if let Err(e) = res {
        println!("{}", json!({"fatal": e}));
    }
    std::process::exit(0);
}

// ---------------------------------------------------------------------------

pub struct C18 {
    fams: Fams,
    lens: Vec<u64>,
}

impl C18 {
    pub fn new(tier: &str) -> C18 {
        let lens: Vec<u64> = if tier == "thorough" { vec![1, 2, 3] } else { vec![1, 2] };
        let mut fams = Fams::default();
        for l in &lens {
            fams.add(&format!("fault sequences of length {} (+2 trailing normal requests) x gap", l), vec![(KINDS.len() as u64).pow(*l as u32), 2]);
        }
        // idle time between legal requests must not count against anybody's time limit
        let idle_len = if tier == "thorough" { 3 } else { 2 };
        fams.add(&format!("idle gaps: sequences of length {} over normal / slow-but-legal / long idle / short idle (+ a slow and a normal request)", idle_len), vec![4u64.pow(idle_len)]);
        fams.add("long panic reports in a four-byte script at all four byte alignments (+ two normal requests)", vec![4]);
        // requests that use much memory legally, or are refused memory and say so themselves
        let mem_len = if tier == "thorough" { 4 } else { 2 };
        fams.add(&format!("memory: sequences of length {} over normal / 30 MiB fill / refused growth / 20 MiB reply (+ a 46 MiB fill and a normal request)", mem_len), vec![4u64.pow(mem_len)]);
        C18 { fams, lens }
    }
    fn seq(&self, idx: u64) -> (String, u64) {
        let (f, d) = self.fams.locate(idx);
        if f == self.lens.len() + 2 {
            let l = if self.lens.len() > 2 { 4 } else { 2 };
            let digits = decode(d[0], &vec![4; l]);
            let mut s: String = digits.iter().map(|x| MEM_KINDS[*x as usize]).collect();
            s.push_str("VA");
            return (s, 0);
        }
        if f == self.lens.len() + 1 {
            return (format!("{}AA", ['U', '1', '2', '3'][d[0] as usize]), 0);
        }
        if f == self.lens.len() {
            let l = if self.lens.len() > 2 { 3 } else { 2 };
            let digits = decode(d[0], &vec![4; l]);
            let mut s: String = digits.iter().map(|x| IDLE_KINDS[*x as usize]).collect();
            s.push_str("WA");
            return (s, 0);
        }
        let l = self.lens[f] as usize;
        let digits = decode(d[0], &vec![KINDS.len() as u64; l]);
        let mut s: String = digits.iter().map(|x| KINDS[*x as usize]).collect();
        s.push_str("AA");
        (s, if d[1] == 0 { 0 } else { 400 })
    }
}

fn pid_alive(pid: u32) -> bool {
    // a zombie still answers kill(0): check the state in /proc
    match std::fs::read_to_string(format!("/proc/{}/stat", pid)) {
        Ok(s) => {
            let st = s.rsplit(')').next().unwrap_or("").trim().chars().next().unwrap_or('Z');
            st != 'Z' && st != 'X'
        }
        Err(_) => false,
    }
}

/// Runs one parent process with an overall deadline; returns its output lines.
fn run_parent(kinds: &str, gap: u64) -> Result<Vec<Value>, String> {
    use std::io::Read;
    use std::os::unix::process::CommandExt;
    let exe = std::env::current_exe().map_err(|e| e.to_string())?;
    let mut cmd = std::process::Command::new(exe);
    cmd.arg("seq").arg(kinds).arg(gap.to_string()).stdin(std::process::Stdio::null()).stdout(std::process::Stdio::piped()).stderr(std::process::Stdio::null()).env("RUST_BACKTRACE", "0");
    unsafe {
        cmd.pre_exec(|| {
            libc::setsid();
            Ok(())
        });
    }
    let mut child = cmd.spawn().map_err(|e| e.to_string())?;
    let pgid = child.id() as i32;
    let budget = Duration::from_millis((kinds.len() as u64) * (TIMEOUT_MS + 3000 + gap) + 5000);
    let t0 = Instant::now();
    let mut stdout = child.stdout.take().unwrap();
    let reader = std::thread::spawn(move || {
        let mut s = String::new();
        let _ = stdout.read_to_string(&mut s);
        s
    });
    let mut timed_out = false;
    loop {
        match child.try_wait() {
            Ok(Some(_)) => break,
            Ok(None) => {
                if t0.elapsed() > budget {
                    timed_out = true;
                    break;
                }
                std::thread::sleep(Duration::from_millis(10));
            }
            Err(e) => return Err(e.to_string()),
        }
    }
    // whatever happened, nothing of this process group may survive
    std::thread::sleep(Duration::from_millis(if timed_out { 0 } else { 150 }));
    let survivors = group_members(pgid);
    unsafe { libc::kill(-pgid, libc::SIGKILL) };
    let _ = child.wait();
    let text = reader.join().unwrap_or_default();
    let mut lines: Vec<Value> = text.lines().filter_map(|l| serde_json::from_str(l).ok()).collect();
    if timed_out {
        lines.push(json!({"parent": "did not finish within its budget"}));
    } else if !survivors.is_empty() {
        lines.push(json!({"survivors": survivors}));
    }
    Ok(lines)
}

fn group_members(pgid: i32) -> Vec<u32> {
    let mut out = vec![];
    if let Ok(rd) = std::fs::read_dir("/proc") {
        for e in rd.flatten() {
            if let Ok(pid) = e.file_name().to_string_lossy().parse::<u32>() {
                if let Ok(s) = std::fs::read_to_string(format!("/proc/{}/stat", pid)) {
                    let rest = s.rsplit(')').next().unwrap_or("");
                    let f: Vec<&str> = rest.split_whitespace().collect();
                    // fields after ')': state ppid pgrp ...
                    if f.len() > 2 && f[2].parse::<i32>().ok() == Some(pgid) && f[0] != "Z" && pid != pgid as u32 {
                        out.push(pid);
                    }
                }
            }
        }
    }
    out
}

fn judge(kinds: &str, lines: &[Value]) -> Vec<(String, String)> {
    let mut bad = vec![];
    let ks: Vec<char> = kinds.chars().collect();
    let mut last_fault_pid: Option<u32> = None;
    let mut current_pid: Option<u32> = None;
    let mut need_new_pid = false;
    for l in lines {
        if l.get("fatal").is_some() {
            bad.push(("sandbox could not be created".to_string(), l.to_string()));
            return bad;
        }
        if l.get("parent").is_some() {
            bad.push(("the parent did not finish (wedged)".to_string(), format!("{}: {}", kinds, l)));
            return bad;
        }
        if let Some(s) = l.get("survivors") {
            bad.push(("a child process outlives its parent".to_string(), format!("{}: pids {}", kinds, s)));
            continue;
        }
        let i = l["i"].as_u64().unwrap_or(0) as usize;
        let k = ks[i];
        let tag = 1000 + i as i64;
        let res = l["result"].as_str().unwrap_or("");
        let err = l["error"].as_str().unwrap_or("");
        let ctx = |what: &str| format!("sequence {} request #{} ({}): {} - observed {}", kinds, i, k, what, l);
        if res == "WEDGED" {
            bad.push((format!("request after [{}] never gets a reply", prefix_class(&ks[..i])), ctx("no reply within timeout + 2.5 s")));
            return bad;
        }
        if l["ms"].as_u64().unwrap_or(0) > TIMEOUT_MS + 2000 {
            bad.push(("reply arrives later than the time limit allows".to_string(), ctx("too late")));
        }
        match k {
            'R' => {
                let want: u64 = (0..BIG_REPLY).map(|k| (k % 251) as u64).sum();
                if !(res == "ok" && l["value"].as_i64() == Some(tag) && l["data_len"].as_u64() == Some(BIG_REPLY as u64) && l["data_sum"].as_u64() == Some(want)) {
                    bad.push((format!("request with a 20 MiB reply after [{}] is not served with its own reply", prefix_class(&ks[..i])), ctx("expected the complete reply")));
                    continue;
                }
                let pid = l["pid"].as_u64().unwrap_or(0) as u32;
                if need_new_pid {
                    if Some(pid) == last_fault_pid {
                        bad.push(("request after a failure is served by the failed child".to_string(), ctx("same pid as before the failure")));
                    }
                    need_new_pid = false;
                }
                current_pid = Some(pid);
            }
            'F' | 'E' | 'V' => {
                let own = if k == 'F' || k == 'V' {
                    let n = if k == 'F' { FILL } else { FILL_BIG } as u64;
                    l["value"].as_i64() == Some(tag) && l["len"].as_u64() == Some(n) && l["sum"].as_u64() == Some(n)
                } else {
                    // refused (-1) or granted (tag): both are the request's own answer
                    l["value"].as_i64() == Some(-1) || l["value"].as_i64() == Some(tag)
                };
                if !(res == "ok" && own) {
                    bad.push((
                        format!("{} after [{}] is not served with its own result", if k == 'F' { "a legal 30 MiB allocation (limit 64 MiB)" } else if k == 'V' { "a legal 46 MiB allocation (limit 64 MiB)" } else { "a request that handles a refused allocation itself" }, mem_class(&ks[..i])),
                        ctx("memory given back by earlier requests - or never granted to them - must be available again"),
                    ));
                    continue;
                }
                current_pid = Some(l["pid"].as_u64().unwrap_or(0) as u32);
            }
            'W' => {
                if !(res == "ok" && l["value"].as_i64() == Some(tag)) {
                    bad.push((
                        format!("slow but legal request ({} ms of a {} ms limit) after [{}] is not served", WORK_MS, TIMEOUT_MS, idle_class(&ks[..i])),
                        ctx("a request that stays inside the time limit must be answered with its own result however long the caller waited before sending it"),
                    ));
                    continue;
                }
                current_pid = Some(l["pid"].as_u64().unwrap_or(0) as u32);
            }
            'A' | 'B' => {
                if res != "ok" {
                    bad.push((
                        format!("normal request after [{}] is not served", if matches!(ks[..i].last(), Some('G') | Some('g')) { idle_class(&ks[..i]).to_string() } else { prefix_class(&ks[..i]) }),
                        ctx("a normal request must be answered with its own result whatever preceded it"),
                    ));
                    continue;
                }
                let pid = l["pid"].as_u64().unwrap_or(0) as u32;
                if k == 'A' {
                    if l["value"].as_i64() != Some(tag + 7 * tag) {
                        bad.push(("reply does not belong to its request".to_string(), ctx("wrong sum (stale or foreign reply)")));
                    }
                } else {
                    let want: u64 = big_payload(i).iter().map(|x| *x as u64).sum();
                    if l["value"].as_i64() != Some(tag) || l["len"].as_u64() != Some(2 << 20) || l["sum"].as_u64() != Some(want) {
                        bad.push(("large payload is not echoed intact".to_string(), ctx("wrong echo")));
                    }
                }
                if need_new_pid {
                    if Some(pid) == last_fault_pid {
                        bad.push(("request after a failure is served by the failed child".to_string(), ctx("same pid as before the failure")));
                    }
                    need_new_pid = false;
                }
                current_pid = Some(pid);
            }
            'P' | 'U' | '1' | '2' | '3' => {
                if !(res == "err" && err == "Panic" && l["message"].as_str().unwrap_or("").contains(MARKER) && l["message"].as_str().unwrap_or("").contains(&tag.to_string())) {
                    bad.push(("panicking request is not reported as its own panic".to_string(), ctx("expected Error::Panic with the marker")));
                }
                last_fault_pid = current_pid;
                need_new_pid = current_pid.is_some();
            }
            'S' | 'L' => {
                if !(res == "err" && err == "Timeout") {
                    bad.push(("overrunning request is not reported as a timeout".to_string(), ctx("expected Error::Timeout")));
                }
                last_fault_pid = current_pid;
                need_new_pid = current_pid.is_some();
            }
            _ => {
                if !(res == "err" && err == "Crashed") {
                    bad.push((format!("{} is not reported as a crash", match k { 'M' => "memory exhaustion", 'H' => "a request larger than the child's memory limit", _ => "child exit" }), ctx("expected Error::Crashed")));
                }
                last_fault_pid = current_pid;
                need_new_pid = current_pid.is_some();
            }
        }
    }
    let replies = lines.iter().filter(|l| l.get("i").is_some()).count();
    let requests = ks.iter().filter(|k| **k != 'G' && **k != 'g').count();
    if replies != requests && bad.is_empty() {
        bad.push(("not every request received exactly one reply".to_string(), format!("{}: {} replies for {} requests", kinds, replies, requests)));
    }
    if let Some(p) = last_fault_pid {
        if pid_alive(p) {
            bad.push(("failed child is still running".to_string(), format!("{}: pid {}", kinds, p)));
        }
    }
    bad
}

fn mem_class(prefix: &[char]) -> &'static str {
    if prefix.contains(&'R') {
        "a request with a 20 MiB reply"
    } else if prefix.contains(&'E') {
        "a refused growth"
    } else if prefix.contains(&'F') {
        "earlier fills"
    } else {
        "normal requests"
    }
}

fn idle_class(prefix: &[char]) -> &'static str {
    match prefix.last() {
        Some('G') => "an idle time longer than the limit",
        Some('g') => "an idle time shorter than the limit",
        _ => "no idle time",
    }
}

/// which kind of fault immediately precedes (used to keep signatures narrow)
fn prefix_class(prefix: &[char]) -> String {
    match prefix.iter().rev().find(|c| **c != 'A' && **c != 'B') {
        Some('P') => "a panic".into(),
        Some('U') | Some('1') | Some('2') | Some('3') => "a panic with a long non-ASCII report".into(),
        Some('H') => "a request larger than the child's memory limit".into(),
        Some('S') => "a timeout".into(),
        Some('L') => "a slight overrun".into(),
        Some('M') => "memory exhaustion".into(),
        Some('X') => "a child exit".into(),
        _ => "no fault".into(),
    }
}

impl Space for C18 {
    fn meta(&self) -> Meta {
        Meta {
            id: "C18",
            level: "fault_enumeration",
            rule: format!("every sequence of length <= {} over the ten request kinds {{normal, panic, overrun of the time limit by 10x, overrun by 1.5x (its reply arrives late), allocation beyond the memory limit, child exit, 2 MiB payload, panic with a 12 kB report in a four-byte script (also at each of the four byte alignments), request payload larger than the child's memory limit, small request with a 20 MiB reply}}, each followed by two normal requests, x gap in {{0 ms, 400 ms}} after each fault; plus every sequence over {{normal, slow-but-legal (200 ms), idle 1.5x the limit, idle 0.5x the limit}} followed by a slow and a normal request (idle time between requests must not count against the limit); plus every sequence over {{normal, legal 30 MiB allocation, growth of a 40 MiB buffer to 60 MiB through a fallible call that the 64 MiB limit refuses and the request reports itself, small request with a 20 MiB reply}} followed by a 46 MiB allocation and a normal request (memory refused, given back, or used for a reply must be available to later requests); run against the real rink_sandbox::Sandbox with real child processes (one parent process per sequence). Oracle: every execute returns within the time limit + 2.5 s; reply i belongs to request i (unique operands / payload checksum); normal and large requests succeed whatever preceded them; panic -> Error::Panic with the marker, overrun -> Timeout, memory/exit -> Crashed; after a fault the next reply comes from another process and the failed child is gone; no process of the group outlives the parent. Non-trivial = the sequence contains a fault followed by a request (all do); distinct by (sequence, gap)", self.lens.last().unwrap()),
            assumptions: vec![
                format!("service time limit {} ms (hundreds of times a normal round trip); a sequence whose only anomaly is timing is re-run once alone before being believed", TIMEOUT_MS),
                "child memory limit 64 MiB, RUST_BACKTRACE=0".into(),
            ],
            exhaustive: true,
            extra: json!({"families": self.fams.summary(), "request_kinds": {"A": "normal add", "P": "panic", "S": "sleep 10x the limit", "L": "sleep 1.5x the limit (late reply)", "M": "allocate 4x the limit", "X": "exit(3)", "B": "2 MiB payload echo", "U": "panic with a long non-ASCII report", "1/2/3": "the same with 1/2/3 bytes of padding", "H": "80 MiB payload (beyond the child's 64 MiB)", "R": "small request, 20 MiB reply", "W": "sleep 200 ms (legal)", "G": "no request: idle 1.5x the limit", "g": "no request: idle 0.5x the limit", "F": "allocate 30 MiB (legal)", "V": "allocate 46 MiB (legal on its own)", "E": "try_reserve from 40 to 60 MiB (refused by the limit, answered -1)"}}),
        }
    }
    fn len(&self) -> u64 {
        self.fams.total()
    }
    fn describe(&self, idx: u64) -> String {
        let (s, g) = self.seq(idx);
        format!("{} gap={}ms", s, g)
    }
    fn sample_indices(&self) -> Vec<u64> {
        self.fams.starts()
    }
    fn chunk(&self) -> u64 {
        1
    }
    fn time_limit(&self, _idx: u64) -> Duration {
        Duration::from_secs(120)
    }
    fn run(&mut self, idx: u64) -> CaseOut {
        let (kinds, gap) = self.seq(idx);
        let mut out = CaseOut::ok("sequence").key(hash64(&(kinds.clone(), gap)));
        let mut bad = match run_parent(&kinds, gap) {
            Ok(lines) => judge(&kinds, &lines),
            Err(e) => vec![("harness: cannot run the parent".to_string(), e)],
        };
        if !bad.is_empty() {
            // timing-sensitive: believe it only if it happens again
            let again = match run_parent(&kinds, gap) {
                Ok(lines) => judge(&kinds, &lines),
                Err(e) => vec![("harness: cannot run the parent".to_string(), e)],
            };
            let sigs: std::collections::BTreeSet<String> = again.iter().map(|b| b.0.clone()).collect();
            bad.retain(|b| sigs.contains(&b.0));
            out = out.count("reruns", 1);
        }
        let mut seen = std::collections::BTreeSet::new();
        for (s, d) in bad {
            if seen.insert(s.clone()) {
                out = out.viol(s, d);
            }
        }
        out.count("requests", kinds.len() as u64)
    }
}
