//! C19 (sequential half) — explicit-state search over allocator operation histories on the
//! real `rink_sandbox::Alloc`, against a plain integer byte counter.

use engine::util::hash64;
use engine::{Aggregate, CaseOut, Meta, Space};
use rink_sandbox::Alloc;
use serde_json::{json, Value};
use std::alloc::{GlobalAlloc, Layout};
use std::collections::{HashMap, VecDeque};

const HUGE: usize = isize::MAX as usize - 4095;
const LIMITS: [usize; 3] = [64, 100, usize::MAX];

#[derive(Clone, Copy, Debug, PartialEq, Eq, Hash)]
enum Op {
    Alloc(usize),
    Zeroed(usize),
    /// realloc the first live block of the given size to a new size
    Realloc(usize, usize),
    /// free the first live block of the given size
    Dealloc(usize),
    ResetMax,
    SetLimit(usize),
}

fn sizes(limit0: usize) -> Vec<usize> {
    if limit0 == usize::MAX {
        vec![1, 8, 4096, HUGE]
    } else {
        let mut v = vec![1, 8, limit0 / 2, limit0, limit0 + 1];
        v.dedup();
        v
    }
}

#[derive(Clone, Debug, Default)]
struct Model {
    live: Vec<usize>,
    used: usize,
    peak: usize,
    limit: usize,
}

impl Model {
    fn key(&self) -> (Vec<usize>, usize, usize) {
        let mut s = self.live.clone();
        s.sort();
        (s, self.peak, self.limit)
    }
}

struct Block {
    ptr: *mut u8,
    size: usize,
    tag: u8,
}

fn fill(ptr: *mut u8, n: usize, tag: u8) {
    let n = n.min(4096);
    unsafe { std::ptr::write_bytes(ptr, tag, n) };
}

fn intact(ptr: *mut u8, n: usize, tag: u8) -> bool {
    let n = n.min(4096);
    (0..n).all(|i| unsafe { *ptr.add(i) } == tag)
}

/// Alignment of every layout of the current exploration (set by `run`): with an alignment of 8 the
/// sizes 1, L/2 +- ... are not multiples of it, so rounding a charge up to the alignment shows.
static ALIGN: std::sync::atomic::AtomicUsize = std::sync::atomic::AtomicUsize::new(1);
const ALIGNS: [usize; 2] = [1, 8];

fn layout(size: usize) -> Layout {
    Layout::from_size_align(size, ALIGN.load(std::sync::atomic::Ordering::Relaxed)).unwrap()
}

/// Replays `hist` on a fresh real allocator and on the model.  Returns the model after the
/// history, the violations found at the LAST step (all prefixes are explored as their own
/// histories), and whether the last op succeeded.
fn replay(limit0: usize, hist: &[Op], read_usage: bool) -> (Model, Vec<(String, String)>, Option<usize>) {
    let a: Alloc = Alloc::new(limit0);
    let mut m = Model { limit: limit0, ..Default::default() };
    let mut blocks: Vec<Block> = vec![];
    let mut bad = vec![];
    let mut next_tag: u8 = 1;
    let small = |s: usize| s <= (1 << 20);
    for (step, op) in hist.iter().enumerate() {
        let last = step + 1 == hist.len();
        let mut viol = |sig: &str, detail: String| {
            if last {
                bad.push((sig.to_string(), format!("after {:?}: {}", &hist[..=step], detail)));
            }
        };
        match *op {
            Op::Alloc(s) | Op::Zeroed(s) => {
                let zeroed = matches!(op, Op::Zeroed(_));
                let p = unsafe { if zeroed { a.alloc_zeroed(layout(s)) } else { a.alloc(layout(s)) } };
                let fits = m.used.checked_add(s).map(|u| u <= m.limit).unwrap_or(false);
                if !p.is_null() {
                    if !fits {
                        viol("allocation succeeded beyond the limit", format!("size {} with usage {} and limit {}", s, m.used, m.limit));
                    }
                    if zeroed && !intact(p, s, 0) {
                        viol("alloc_zeroed memory is not zero", format!("size {}", s));
                    }
                    fill(p, s, next_tag);
                    blocks.push(Block { ptr: p, size: s, tag: next_tag });
                    next_tag = next_tag.wrapping_add(1).max(1);
                    m.live.push(s);
                    m.used += s;
                    m.peak = m.peak.max(m.used);
                } else if fits && small(s) {
                    viol("allocation within the limit was refused", format!("size {} with usage {} and limit {}", s, m.used, m.limit));
                }
            }
            Op::Realloc(old, new) => {
                let i = match blocks.iter().position(|b| b.size == old) {
                    Some(i) => i,
                    None => continue,
                };
                let b = &blocks[i];
                let p = unsafe { a.realloc(b.ptr, layout(old), new) };
                let after = m.used - old;
                let fits_final = after.checked_add(new).map(|u| u <= m.limit).unwrap_or(false);
                let fits_transient = m.used.checked_add(new).map(|u| u <= m.limit).unwrap_or(false);
                if !p.is_null() {
                    if !fits_final {
                        viol("realloc succeeded beyond the limit", format!("{} -> {} with usage {} and limit {}", old, new, m.used, m.limit));
                    }
                    if !intact(p, old.min(new), b.tag) {
                        viol("realloc lost the block's contents", format!("{} -> {}", old, new));
                    }
                    let tag = b.tag;
                    fill(p, new, tag);
                    blocks[i] = Block { ptr: p, size: new, tag };
                    let li = m.live.iter().position(|x| *x == old).unwrap();
                    m.live[li] = new;
                    m.used = after + new;
                    m.peak = m.peak.max(m.used);
                } else {
                    if fits_transient && small(new) {
                        viol("realloc within the limit was refused", format!("{} -> {} with usage {} and limit {}", old, new, m.used, m.limit));
                    }
                    if !intact(b.ptr, old, b.tag) {
                        viol("refused realloc damaged the original block", format!("{} -> {}", old, new));
                    }
                }
            }
            Op::Dealloc(sz) => {
                let i = match blocks.iter().position(|b| b.size == sz) {
                    Some(i) => i,
                    None => continue,
                };
                let b = blocks.remove(i);
                if !intact(b.ptr, b.size, b.tag) {
                    viol("block contents changed while live", format!("size {}", b.size));
                }
                unsafe { a.dealloc(b.ptr, layout(b.size)) };
                let li = m.live.iter().position(|x| *x == sz).unwrap();
                m.live.remove(li);
                m.used -= sz;
            }
            Op::ResetMax => {
                a.reset_max();
                m.peak = m.used;
            }
            Op::SetLimit(l) => {
                a.set_limit(l);
                m.limit = l;
            }
        }
        if last {
            let got = a.get_max();
            if got < m.peak {
                bad.push((
                    "reported peak is below the largest usage reached since the last reset".to_string(),
                    format!("after {:?}: get_max() = {} but usage reached {}", hist, got, m.peak),
                ));
            }
        }
    }
    let mut usage = None;
    if read_usage {
        a.reset_max();
        usage = Some(a.get_max());
    }
    for b in blocks {
        unsafe { a.dealloc(b.ptr, layout(b.size)) };
    }
    (m, bad, usage)
}

fn ops_for(m: &Model, limit0: usize) -> Vec<Op> {
    let mut ops = vec![];
    for s in sizes(limit0) {
        ops.push(Op::Alloc(s));
        ops.push(Op::Zeroed(s));
    }
    let mut distinct = m.live.clone();
    distinct.sort();
    distinct.dedup();
    for old in &distinct {
        for s in sizes(limit0) {
            if s != *old {
                ops.push(Op::Realloc(*old, s));
            }
        }
        ops.push(Op::Dealloc(*old));
    }
    ops.push(Op::ResetMax);
    for l in LIMITS {
        if l != m.limit {
            ops.push(Op::SetLimit(l));
        }
    }
    ops
}

pub struct C19 {
    depth: usize,
}

impl C19 {
    pub fn new(tier: &str) -> C19 {
        C19 { depth: if tier == "thorough" { 10 } else { 6 } }
    }
}

impl Space for C19 {
    fn meta(&self) -> Meta {
        Meta {
            id: "C19",
            level: "model_checking",
            rule: format!("sequential half: breadth-first explicit-state search over operation histories of the real rink_sandbox::Alloc to depth {} for initial limits 64, 100 and usize::MAX, each with byte-aligned and with 8-aligned layouts (sizes that are not multiples of the alignment); alphabet alloc/alloc_zeroed of sizes {{1, 8, L/2, L, L+1}} (for the unlimited allocator {{1, 8, 4096, a size the parent allocator refuses}}), realloc of a live block to each size, dealloc, reset_max, set_limit; state = (sorted multiset of live sizes, peak since reset, limit), merged states have equal futures because the allocator reads only used/max/limit; every transition replays the representative history + the op on a fresh real allocator and compares with an integer byte counter: success only within the limit (and required when even the transient charge fits), refused ops leave usage and block contents unchanged, zeroed memory is zero, realloc keeps the common prefix, get_max() >= model peak, reset_max()+get_max() == model usage (read on a second replay). The concurrent half (loom) is run by the same check command and adds its schedules to the evidence", self.depth),
            assumptions: vec![
                "an allocation of at most 1 MiB that fits the limit must succeed (the system allocator does not fail for such sizes)".into(),
                "realloc may refuse when only the transient old+new charge exceeds the limit (the statement says 'only if')".into(),
            ],
            exhaustive: true,
            extra: json!({"depth": self.depth, "initial_limits": ["64", "100", "usize::MAX"]}),
        }
    }
    fn len(&self) -> u64 {
        (LIMITS.len() * ALIGNS.len()) as u64
    }
    fn describe(&self, idx: u64) -> String {
        let l = LIMITS[idx as usize % LIMITS.len()];
        format!("BFS over allocator histories to depth {} from Alloc::new({}), layouts aligned to {}", self.depth, if l == usize::MAX { "usize::MAX".to_string() } else { l.to_string() }, ALIGNS[idx as usize / LIMITS.len()])
    }
    fn sample_indices(&self) -> Vec<u64> {
        vec![0, 1, 2]
    }
    fn chunk(&self) -> u64 {
        1
    }
    fn time_limit(&self, _idx: u64) -> std::time::Duration {
        std::time::Duration::from_secs(900)
    }
    fn coverage_extra(&self, agg: &Aggregate) -> Value {
        json!({
            "states": agg.keys.len(),
            "transitions": agg.counters.get("transitions").copied().unwrap_or(0),
            "traces_validated_against_impl": agg.counters.get("transitions").copied().unwrap_or(0),
            "max_depth": self.depth,
            "refused_operations_observed": agg.counters.get("refusals").copied().unwrap_or(0),
        })
    }
    fn run(&mut self, idx: u64) -> CaseOut {
        let limit0 = LIMITS[idx as usize % LIMITS.len()];
        let align = ALIGNS[idx as usize / LIMITS.len()];
        ALIGN.store(align, std::sync::atomic::Ordering::Relaxed);
        let mut seen: HashMap<(Vec<usize>, usize, usize), Vec<Op>> = HashMap::new();
        let mut queue: VecDeque<Vec<Op>> = VecDeque::new();
        let (m0, _, _) = replay(limit0, &[], false);
        seen.insert(m0.key(), vec![]);
        queue.push_back(vec![]);
        let mut transitions = 0u64;
        let mut refusals = 0u64;
        let mut out = CaseOut::ok("bfs");
        let mut sigs = std::collections::BTreeSet::new();
        while let Some(hist) = queue.pop_front() {
            let (m, _, _) = replay(limit0, &hist, false);
            for op in ops_for(&m, limit0) {
                let mut h2 = hist.clone();
                h2.push(op);
                let (m2, bad, _) = replay(limit0, &h2, false);
                // usage is read on a second replay so that reset_max does not disturb the path
                let (_, _, usage) = replay(limit0, &h2, true);
                transitions += 1;
                if m2.live.len() == m.live.len() && matches!(op, Op::Alloc(_) | Op::Zeroed(_)) {
                    refusals += 1;
                }
                let mut all = bad;
                if usage != Some(m2.used) {
                    all.push((
                        "tracked usage differs from the total size of live allocations".to_string(),
                        format!("after {:?}: reset_max()+get_max() = {:?} but live blocks total {}", h2, usage, m2.used),
                    ));
                }
                for (s, d) in all {
                    if sigs.insert(s.clone()) {
                        out = out.viol(s, d);
                    }
                }
                if h2.len() < self.depth {
                    let k = m2.key();
                    if !seen.contains_key(&k) {
                        seen.insert(k, h2.clone());
                        queue.push_back(h2);
                    }
                } else {
                    seen.entry(m2.key()).or_insert(h2);
                }
            }
        }
        out.keys = seen.keys().map(|k| hash64(&(limit0, align, k))).collect();
        out.count("transitions", transitions).count("refusals", refusals)
    }
}
