//! C18 (sandbox protocol: fault-sequence enumeration against the real Sandbox + real child
//! processes) and the sequential half of C19 (explicit-state search over allocator histories).
//!
//!   mc-sandbox run <C18|C19> [--tier quick|thorough]     coordinator
//!   mc-sandbox worker <ID> <tier>                       engine worker
//!   mc-sandbox replay <ID> <file>
//!   mc-sandbox child                                    sandboxed service (spawned by Sandbox)
//!   mc-sandbox seq <kinds> <gap_ms>                     one parent process running one fault sequence

mod c18;
mod c19;

use engine::{check_main, replay_main, worker_main, RunCfg, Space};
use rink_sandbox::Alloc;

#[global_allocator]
pub(crate) static GLOBAL: Alloc = Alloc::new(usize::MAX);

fn build(id: &str, tier: &str) -> Option<Box<dyn Space + Sync + Send>> {
    Some(match id {
        "C18" => Box::new(c18::C18::new(tier)),
        "C19" => Box::new(c19::C19::new(tier)),
        _ => return None,
    })
}

fn main() {
    let args: Vec<String> = std::env::args().collect();
    if args.len() < 2 {
        eprintln!("usage: mc-sandbox run|worker|replay|child|seq ...");
        std::process::exit(2);
    }
    match args[1].as_str() {
        "child" => c18::child_main(),
        "seq" => c18::seq_main(&args[2], args[3].parse().unwrap_or(0)),
        "worker" => worker_main(build(&args[2], &args[3]).expect("unknown property")),
        "run" => {
            let mut tier = std::env::var("VERIF_TIER").unwrap_or_else(|_| "quick".into());
            let mut i = 3;
            while i < args.len() {
                if args[i] == "--tier" && i + 1 < args.len() {
                    tier = args[i + 1].clone();
                    i += 1;
                }
                i += 1;
            }
            let space = build(&args[2], &tier).unwrap_or_else(|| {
                eprintln!("unknown property");
                std::process::exit(2)
            });
            std::process::exit(check_main(&*space, &RunCfg::from_env(&tier)));
        }
        "replay" => {
            let body: serde_json::Value = std::fs::read_to_string(&args[3]).ok().and_then(|s| serde_json::from_str(&s).ok()).unwrap_or_else(|| {
                eprintln!("cannot read {}", args[3]);
                std::process::exit(2)
            });
            let tier = body["tier"].as_str().unwrap_or("quick").to_string();
            let mut space = build(&args[2], &tier).expect("unknown property");
            std::process::exit(replay_main(&mut *space, &args[3]));
        }
        _ => {
            eprintln!("unknown mode");
            std::process::exit(2);
        }
    }
}
