//! Helpers shared by the property modules.
#![allow(dead_code)]

use num_bigint::BigInt;
use num_rational::BigRational;
use num_traits::{One, Zero};
use rink_core::output::{QueryError, QueryReply};
use rink_core::parsing::text_query;
use rink_core::types::{Number, Numeric};
use rink_core::Context;
use std::collections::BTreeMap;

pub type Rat = BigRational;
pub type Dims = BTreeMap<String, i64>;

/// A context loaded from the repository's bundled files, with every source of
/// nondeterminism pinned (clock fixed, humanize off).
pub fn fresh_ctx() -> Context {
    let mut ctx = rink_core::simple_context().expect("bundled definitions must load");
    ctx.use_humanize = false;
    ctx.set_time(fixed_now());
    ctx
}

pub fn fixed_now() -> chrono::DateTime<chrono::Local> {
    use chrono::TimeZone;
    chrono::Local.timestamp_opt(1_700_000_000, 0).unwrap()
}

/// Parse + evaluate without touching the clock or `ans` (shared reference).
pub fn eval_q(ctx: &Context, line: &str) -> Result<QueryReply, QueryError> {
    let mut iter = text_query::TokenIterator::new(line.trim()).peekable();
    let q = text_query::parse_query(&mut iter);
    ctx.eval_query(&q)
}

pub fn numeric_to_rat(n: &Numeric) -> Option<Rat> {
    match n {
        Numeric::Rational(_) => {
            let (num, den) = n.to_rational();
            Some(Rat::new(num.into_inner(), den.into_inner()))
        }
        Numeric::Float(_) => None,
    }
}

pub fn numeric_to_rat_lossy(n: &Numeric) -> Option<Rat> {
    match n {
        Numeric::Float(f) if !f.is_finite() => None,
        _ => {
            let (num, den) = n.to_rational();
            Some(Rat::new(num.into_inner(), den.into_inner()))
        }
    }
}

pub fn dims_of(n: &Number) -> Dims {
    n.unit.iter().map(|(k, v)| (k.to_string(), *v)).collect()
}

pub fn dims_str(d: &Dims) -> String {
    if d.is_empty() {
        return "1".into();
    }
    d.iter()
        .map(|(k, v)| format!("{}^{}", k, v))
        .collect::<Vec<_>>()
        .join(" ")
}

pub fn dims_mul(a: &Dims, b: &Dims, sign: i64) -> Dims {
    let mut r = a.clone();
    for (k, v) in b {
        let e = r.entry(k.clone()).or_insert(0);
        *e += sign * v;
    }
    r.retain(|_, v| *v != 0);
    r
}

pub fn dims_pow(a: &Dims, k: i64) -> Dims {
    let mut r = Dims::new();
    for (n, v) in a {
        if v * k != 0 {
            r.insert(n.clone(), v * k);
        }
    }
    r
}

pub fn rat(n: i64, d: i64) -> Rat {
    Rat::new(BigInt::from(n), BigInt::from(d))
}

pub fn pow_rat(b: &Rat, e: i64) -> Option<Rat> {
    if e >= 0 {
        Some(Rat::new(
            num_traits::pow(b.numer().clone(), e as usize),
            num_traits::pow(b.denom().clone(), e as usize),
        ))
    } else {
        if b.is_zero() {
            return None;
        }
        let p = pow_rat(b, -e)?;
        Some(Rat::one() / p)
    }
}

/// Own reader for the numeric literal syntax of the query language
/// (decimal with fraction/exponent/separators, 0x, 0o, 0b).
pub fn parse_literal(s: &str) -> Option<Rat> {
    let clean: String = s.chars().filter(|c| *c != '_' && *c != '\u{2009}').collect();
    let radix = |digits: &str, r: u32| BigInt::parse_bytes(digits.as_bytes(), r).map(Rat::from_integer);
    if let Some(h) = clean.strip_prefix("0x") {
        return radix(h, 16);
    }
    if let Some(h) = clean.strip_prefix("0o") {
        return radix(h, 8);
    }
    if let Some(h) = clean.strip_prefix("0b") {
        return radix(h, 2);
    }
    let lower = clean.to_ascii_lowercase();
    let (mant, exp) = match lower.find('e') {
        Some(i) => (&lower[..i], Some(&lower[i + 1..])),
        None => (&lower[..], None),
    };
    let (ip, fp) = match mant.find('.') {
        Some(i) => (&mant[..i], &mant[i + 1..]),
        None => (mant, ""),
    };
    let ip = if ip.is_empty() { "0" } else { ip };
    let mut v = Rat::from_integer(BigInt::parse_bytes(ip.as_bytes(), 10)?);
    if !fp.is_empty() {
        let f = BigInt::parse_bytes(fp.as_bytes(), 10)?;
        v += Rat::new(f, num_traits::pow(BigInt::from(10), fp.len()));
    }
    if let Some(e) = exp {
        let e: i64 = e.trim_start_matches('+').parse().ok()?;
        v *= pow_rat(&rat(10, 1), e)?;
    }
    Some(v)
}

pub fn err_kind(e: &QueryError) -> &'static str {
    match e {
        QueryError::Conformance(_) => "Conformance",
        QueryError::NotFound(_) => "NotFound",
        QueryError::Generic { .. } => "Generic",
    }
}

pub fn reply_kind(r: &QueryReply) -> &'static str {
    match r {
        QueryReply::Number(_) => "Number",
        QueryReply::Date(_) => "Date",
        QueryReply::Substance(_) => "Substance",
        QueryReply::Duration(_) => "Duration",
        QueryReply::Def(_) => "Def",
        QueryReply::Conversion(_) => "Conversion",
        QueryReply::Factorize(_) => "Factorize",
        QueryReply::UnitsFor(_) => "UnitsFor",
        QueryReply::UnitList(_) => "UnitList",
        QueryReply::Search(_) => "Search",
    }
}

/// Binary-tree shapes with k internal nodes (Catalan many).
#[derive(Clone, Debug)]
pub enum Shape {
    Leaf,
    Node(Box<Shape>, Box<Shape>),
}

pub fn shapes(k: usize) -> Vec<Shape> {
    if k == 0 {
        return vec![Shape::Leaf];
    }
    let mut out = vec![];
    for l in 0..k {
        let r = k - 1 - l;
        for a in shapes(l) {
            for b in shapes(r) {
                out.push(Shape::Node(Box::new(a.clone()), Box::new(b)));
            }
        }
    }
    out
}

/// Wrapper to let a lazily built Context live in a `Sync` space: the coordinator
/// never touches it, each worker process is single-threaded with respect to it.
pub struct Lazy<T>(pub Option<T>);
unsafe impl<T> Sync for Lazy<T> {}
unsafe impl<T> Send for Lazy<T> {}
impl<T> Lazy<T> {
    pub fn new() -> Lazy<T> {
        Lazy(None)
    }
    pub fn get(&mut self, f: impl FnOnce() -> T) -> &mut T {
        if self.0.is_none() {
            self.0 = Some(f());
        }
        self.0.as_mut().unwrap()
    }
    pub fn clear(&mut self) {
        self.0 = None;
    }
}

/// Run `f` with file descriptor 1 redirected to a scratch file and return what was
/// printed (the definitions parser reports syntax complaints with `println!`).
pub fn capture_stdout<R>(f: impl FnOnce() -> R) -> (R, String) {
    use std::io::Write;
    if engine::cap::active() {
        // worker process: fd 1 already points at the capture file
        let m = engine::cap::mark();
        let r = f();
        return (r, engine::cap::since(m));
    }
    use std::os::unix::io::AsRawFd;
    let _ = std::io::stdout().flush();
    let dir = std::env::var("VERIF_DIR").unwrap_or_else(|_| "/verif".into());
    let _ = std::fs::create_dir_all(format!("{}/target/tmp", dir));
    let path = format!("{}/target/tmp/stdout-{}.txt", dir, std::process::id());
    let file = std::fs::OpenOptions::new()
        .create(true)
        .write(true)
        .truncate(true)
        .open(&path)
        .expect("scratch file");
    let saved = unsafe { libc::dup(1) };
    unsafe { libc::dup2(file.as_raw_fd(), 1) };
    let r = std::panic::catch_unwind(std::panic::AssertUnwindSafe(f));
    let _ = std::io::stdout().flush();
    unsafe {
        libc::dup2(saved, 1);
        libc::close(saved);
    }
    let text = std::fs::read_to_string(&path).unwrap_or_default();
    let _ = std::fs::remove_file(&path);
    match r {
        Ok(r) => (r, text),
        Err(p) => std::panic::resume_unwind(p),
    }
}
