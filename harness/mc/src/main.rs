//! `mc run <ID> --tier quick|thorough` — coordinator; `mc worker <ID> <tier>` — worker;
//! `mc replay <ID> <file>` — replays one recorded case without the explorer.

mod common;
mod numeral;
mod props;
mod regdump;

use engine::{check_main, replay_main, worker_main, RunCfg};

fn main() {
    let args: Vec<String> = std::env::args().collect();
    if args.len() < 3 {
        eprintln!("usage: mc run <ID> [--tier quick|thorough] | mc worker <ID> <tier> | mc replay <ID> <file>");
        std::process::exit(2);
    }
    let seed = std::env::var("VERIF_SEED")
        .ok()
        .and_then(|s| s.parse::<u64>().ok())
        .unwrap_or(0);
    match args[1].as_str() {
        "worker" => {
            let space = props::build(&args[2], &args[3], seed).expect("unknown property");
            worker_main(space);
        }
        "run" => {
            let mut tier = std::env::var("VERIF_TIER").unwrap_or_else(|_| "quick".into());
            let mut i = 3;
            while i < args.len() {
                if args[i] == "--tier" && i + 1 < args.len() {
                    tier = args[i + 1].clone();
                    i += 1;
                }
                i += 1;
            }
            if tier != "quick" && tier != "thorough" {
                eprintln!("unknown tier {}", tier);
                std::process::exit(2);
            }
            let space = match props::build(&args[2], &tier, seed) {
                Some(s) => s,
                None => {
                    eprintln!("unknown property {}", args[2]);
                    std::process::exit(2);
                }
            };
            let cfg = RunCfg::from_env(&tier);
            std::process::exit(check_main(&*space, &cfg));
        }
        "replay" => {
            let body: serde_json::Value = std::fs::read_to_string(&args[3])
                .ok()
                .and_then(|s| serde_json::from_str(&s).ok())
                .unwrap_or_else(|| {
                    eprintln!("cannot read {}", args[3]);
                    std::process::exit(2)
                });
            let tier = body["tier"].as_str().unwrap_or("quick").to_string();
            let mut space = props::build(&args[2], &tier, seed).expect("unknown property");
            std::process::exit(replay_main(&mut *space, &args[3]));
        }
        "dump" => {
            let ctx = common::fresh_ctx();
            let d = regdump::dump(&ctx);
            println!("units {} base {} prefixes {} quantities {} substances {} symbols {}", d.units.len(), d.base_units.len(), d.prefixes.len(), d.quantities.len(), d.substances.len(), d.symbols.len());
            let floats: Vec<_> = d.units.values().filter(|u| u.value.is_none()).map(|u| u.name.clone()).collect();
            println!("float-valued: {:?}", floats);
            let nonpos: Vec<_> = d.units.values().filter(|u| u.value.as_ref().map(|v| v <= &common::rat(0,1)).unwrap_or(false)).map(|u| u.name.clone()).collect();
            println!("non-positive: {:?}", nonpos);
            let reps = d.representatives();
            println!("representatives {}: {:?}", reps.len(), reps.iter().map(|u| u.name.clone()).collect::<Vec<_>>());
            let unaddr: Vec<_> = d.units.keys().filter(|n| !regdump::addressable(n)).cloned().collect();
            println!("not addressable: {:?}", unaddr);
            println!("base units: {:?}", d.base_units);
        }
        "list" => {
            let tier = args.get(3).cloned().unwrap_or_else(|| "quick".into());
            let space = props::build(&args[2], &tier, seed).expect("unknown property");
            let n = space.len();
            let from: u64 = args.get(4).and_then(|s| s.parse().ok()).unwrap_or(0);
            let cnt: u64 = args.get(5).and_then(|s| s.parse().ok()).unwrap_or(20);
            println!("len = {}", n);
            for i in from..(from + cnt).min(n) {
                println!("{}\t{}", i, space.describe(i));
            }
        }
        _ => {
            eprintln!("unknown mode");
            std::process::exit(2);
        }
    }
}
