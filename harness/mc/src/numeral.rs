//! Independent reader for the numerals rink prints:
//!   [-] INT [ . FRAC ] [ '[' BLOCK [', period N'] ']...' ] [ e EXP ]      (any base 2..36)
//!   [-] P [ / Q ]                                                        (fraction mode)
//! The exponent is a decimal integer and scales by base^EXP.
#![allow(dead_code)]

use crate::common::*;
use num_bigint::BigInt;
use num_traits::{One, Zero};

#[derive(Debug, Clone, PartialEq)]
pub struct Read {
    /// value of the printed digits (recurring block expanded exactly)
    pub value: Rat,
    /// one unit of the last printed digit, scaled by the exponent
    pub ulp: Rat,
    pub recurring: bool,
    pub block_len: usize,
    pub stated_period: Option<usize>,
    pub has_exponent: bool,
}

fn digit(c: char, base: u32) -> Option<u32> {
    // rink prints lower-case digits (char::from_digit)
    if c.is_ascii_uppercase() {
        return None;
    }
    c.to_digit(base)
}

fn int_of(s: &str, base: u32) -> Option<BigInt> {
    if s.is_empty() {
        return None;
    }
    let mut v = BigInt::zero();
    for c in s.chars() {
        v = v * base + digit(c, base)?;
    }
    Some(v)
}

fn powb(base: u32, e: i64) -> Rat {
    pow_rat(&rat(base as i64, 1), e).unwrap()
}

/// Read a mantissa (no exponent part).
fn read_mantissa(s: &str, base: u32) -> Option<Read> {
    let (neg, s) = match s.strip_prefix('-') {
        Some(r) => (true, r),
        None => (false, s),
    };
    // split off a recurring block
    let (plain, block) = match s.find('[') {
        Some(i) => {
            let rest = &s[i + 1..];
            let inner = rest.strip_suffix("]...")?;
            (&s[..i], Some(inner))
        }
        None => (s, None),
    };
    let (ip, fp) = match plain.find('.') {
        Some(i) => (&plain[..i], Some(&plain[i + 1..])),
        None => (plain, None),
    };
    let mut value = Rat::from_integer(int_of(ip, base)?);
    let mut fraclen = 0usize;
    if let Some(fp) = fp {
        if block.is_none() && fp.is_empty() {
            return None; // "12." is not something rink prints
        }
        if !fp.is_empty() {
            fraclen = fp.chars().count();
            value += Rat::new(int_of(fp, base)?, num_traits::pow(BigInt::from(base), fraclen));
        }
    }
    let mut r = Read {
        value,
        ulp: powb(base, -(fraclen as i64)),
        recurring: false,
        block_len: 0,
        stated_period: None,
        has_exponent: false,
    };
    if let Some(b) = block {
        fp?; // a block only appears after the radix point
        let (digits, period) = match b.find(", period ") {
            Some(i) => (&b[..i], Some(b[i + 9..].parse::<usize>().ok()?)),
            None => (b, None),
        };
        let len = digits.chars().count();
        if len == 0 {
            return None;
        }
        let bv = int_of(digits, base)?;
        let denom = num_traits::pow(BigInt::from(base), len) - BigInt::one();
        r.value += Rat::new(bv, denom) * powb(base, -(fraclen as i64));
        r.recurring = true;
        r.block_len = len;
        r.stated_period = period;
        r.ulp = Rat::zero();
    }
    if neg {
        r.value = -r.value;
    }
    Some(r)
}

/// All consistent readings of `s` as a numeral in `base` (more than one only when `e` is
/// also a digit of the base).
pub fn read_all(s: &str, base: u32) -> Vec<Read> {
    let mut out = vec![];
    if let Some(r) = read_mantissa(s, base) {
        out.push(r);
    }
    for (i, c) in s.char_indices() {
        if c != 'e' {
            continue;
        }
        let (m, e) = (&s[..i], &s[i + 1..]);
        let exp: i64 = match e.parse() {
            Ok(v) => v,
            Err(_) => continue,
        };
        if e.starts_with('+') || exp.abs() > 20_000 {
            // not something rink prints for the values explored here; as a *reading* of a
            // digit string that merely contains `e` it would only cost time
            continue;
        }
        if let Some(mut r) = read_mantissa(m, base) {
            let sc = powb(base, exp);
            r.value *= &sc;
            r.ulp *= &sc;
            r.has_exponent = true;
            out.push(r);
        }
    }
    out
}

/// `p/q` or `p`, digits in `base`.
pub fn read_fraction(s: &str, base: u32) -> Option<Rat> {
    let (neg, s) = match s.strip_prefix('-') {
        Some(r) => (true, r),
        None => (false, s),
    };
    let (p, q) = match s.find('/') {
        Some(i) => (&s[..i], Some(&s[i + 1..])),
        None => (s, None),
    };
    let p = int_of(p, base)?;
    let q = match q {
        Some(q) => int_of(q, base)?,
        None => BigInt::one(),
    };
    if q.is_zero() {
        return None;
    }
    let v = Rat::new(p, q);
    Some(if neg { -v } else { v })
}

/// Judge one printed numeral against the value it should denote.
/// Returns Err(explanation) on disagreement.
pub fn judge(text: &str, base: u32, is_exact: bool, x: &Rat) -> Result<&'static str, String> {
    use num_traits::Signed;
    let readings = read_all(text, base);
    if readings.is_empty() {
        return Err(format!("`{}` is not a base-{} numeral", text, base));
    }
    let mut last_err = String::new();
    for r in &readings {
        if let Some(p) = r.stated_period {
            if p != r.block_len {
                last_err = format!("stated period {} but the block has {} digits", p, r.block_len);
                continue;
            }
        }
        if is_exact {
            if &r.value == x {
                return Ok(if r.recurring { "exact recurring" } else if r.has_exponent { "exact with exponent" } else { "exact terminating" });
            }
            last_err = format!("marked exact but `{}` (base {}) denotes {} and the value is {}", text, base, r.value, x);
        } else {
            if r.recurring {
                last_err = "approximate numeral with a recurring block".into();
                continue;
            }
            let same_sign = r.value.is_zero() || (r.value.is_negative() == x.is_negative());
            let err = (x - &r.value).abs();
            if same_sign && x.abs() >= r.value.abs() && err < r.ulp {
                return Ok("approximate (truncation)");
            }
            last_err = format!(
                "marked approximate: `{}` (base {}) denotes {}, the value is {}; not a truncation toward zero within one unit of the last digit ({})",
                text, base, r.value, x, r.ulp
            );
        }
    }
    Err(last_err)
}
