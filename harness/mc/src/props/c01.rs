//! C01 — exact arithmetic.  Every expression tree over a boundary-value literal
//! alphabet and the whole operator set, up to a node bound, in two renderings
//! (fully parenthesised, and minimally parenthesised according to the manual's
//! precedence table), is evaluated by rink and by an independent BigRational
//! evaluator.

use crate::common::*;
use engine::util::{decode, hash64};
use engine::{Abnormal, CaseOut, Meta, Space, Violation};
use num_bigint::BigInt;
use num_integer::Integer;
use num_traits::{One, Signed, ToPrimitive, Zero};
use rink_core::output::QueryReply;
use rink_core::Context;
use serde_json::json;

#[derive(Clone, Copy, Debug, PartialEq)]
pub enum Op {
    Add,
    Sub,
    Mul,
    Div,
    Pipe,
    Juxt,
    Pow,
    StarStar,
    Mod,
    Shl,
    Shr,
    And,
    Or,
    Xor,
}

const OPS13: [Op; 13] = [
    Op::Add,
    Op::Sub,
    Op::Mul,
    Op::Div,
    Op::Pipe,
    Op::Juxt,
    Op::Pow,
    Op::Mod,
    Op::Shl,
    Op::Shr,
    Op::And,
    Op::Or,
    Op::Xor,
];
const OPS14: [Op; 14] = [
    Op::Add,
    Op::Sub,
    Op::Mul,
    Op::Div,
    Op::Pipe,
    Op::Juxt,
    Op::Pow,
    Op::StarStar,
    Op::Mod,
    Op::Shl,
    Op::Shr,
    Op::And,
    Op::Or,
    Op::Xor,
];

#[derive(Clone, Debug)]
pub enum T {
    Lit(String),
    Neg(Box<T>),
    Pos(Box<T>),
    Bin(Op, Box<T>, Box<T>),
}

fn sym(op: Op) -> &'static str {
    match op {
        Op::Add => " + ",
        Op::Sub => " - ",
        Op::Mul => " * ",
        Op::Div => " / ",
        Op::Pipe => "|",
        Op::Juxt => " ",
        Op::Pow => "^",
        Op::StarStar => "**",
        Op::Mod => " mod ",
        Op::Shl => " << ",
        Op::Shr => " >> ",
        Op::And => " and ",
        Op::Or => " or ",
        Op::Xor => " xor ",
    }
}

/// Binding level per the manual: unary sign / atom 6 > ^ 5 > | 4 > juxtaposition 3
/// > * / mod << >> and or xor 2 (left-assoc) > + - 1 (left-assoc).
fn level(t: &T) -> u8 {
    match t {
        T::Lit(_) | T::Neg(_) | T::Pos(_) => 6,
        T::Bin(op, _, _) => match op {
            Op::Pow | Op::StarStar => 5,
            Op::Pipe => 4,
            Op::Juxt => 3,
            Op::Mul | Op::Div | Op::Mod | Op::Shl | Op::Shr | Op::And | Op::Or | Op::Xor => 2,
            Op::Add | Op::Sub => 1,
        },
    }
}

pub fn render_full(t: &T) -> String {
    match t {
        T::Lit(s) => s.clone(),
        T::Neg(x) => format!("-({})", render_full(x)),
        T::Pos(x) => format!("+({})", render_full(x)),
        T::Bin(op, a, b) => format!("({}){}({})", render_full(a), sym(*op), render_full(b)),
    }
}

/// Third rendering: fully parenthesised with every token in its *other* spelling - `per` for `/`,
/// U+2212 for `-` (binary and unary), U+2215 for `|`, `**` for `^` and vice versa - and a trailing
/// comment.  `None` when the tree has no token with a second spelling.
pub fn render_alt(t: &T) -> Option<String> {
    fn go(t: &T, used: &mut bool) -> String {
        match t {
            T::Lit(s) => s.clone(),
            T::Neg(x) => {
                *used = true;
                format!("\u{2212}({})", go(x, used))
            }
            T::Pos(x) => format!("+({})", go(x, used)),
            T::Bin(op, a, b) => {
                let sy = match op {
                    Op::Sub => " \u{2212} ",
                    Op::Div => " per ",
                    Op::Pipe => "\u{2215}",
                    Op::Pow => "**",
                    Op::StarStar => "^",
                    o => return format!("({}){}({})", go(a, used), sym(*o), go(b, used)),
                };
                *used = true;
                format!("({}){}({})", go(a, used), sy, go(b, used))
            }
        }
    }
    let mut used = false;
    let s = go(t, &mut used);
    if used {
        Some(format!("{} // comment", s))
    } else {
        None
    }
}

fn starts_with_sign(t: &T) -> bool {
    match t {
        T::Neg(_) | T::Pos(_) => true,
        T::Lit(_) => false,
        T::Bin(_, a, _) => starts_with_sign(a),
    }
}

fn paren_if(t: &T, need: bool) -> String {
    if need {
        format!("({})", render_min(t))
    } else {
        render_min(t)
    }
}

pub fn render_min(t: &T) -> String {
    match t {
        T::Lit(s) => s.clone(),
        // a sign applies to the term that follows it: anything but an atom needs parentheses
        T::Neg(x) => format!("-{}", paren_if(x, !matches!(**x, T::Lit(_)))),
        T::Pos(x) => format!("+{}", paren_if(x, !matches!(**x, T::Lit(_)))),
        T::Bin(op, a, b) => {
            let lv = level(t);
            let (la, lb) = (level(a), level(b));
            let (pa, pb) = match op {
                // right-associative; the base must be a term (a sign binds to its term first)
                Op::Pow | Op::StarStar => (la < 6, lb < 5),
                // not chainable
                Op::Pipe => (la < 5, lb < 5),
                // later factors may not start with a sign (it would read as subtraction)
                Op::Juxt => (la < 3, lb <= 3 || starts_with_sign(b)),
                Op::Add | Op::Sub => (la < lv, lb <= lv),
                _ => (la < lv, lb <= lv),
            };
            format!("{}{}{}", paren_if(a, pa), sym(*op), paren_if(b, pb))
        }
    }
}

#[derive(Debug, Clone, PartialEq)]
pub enum Ref {
    Val(Rat),
    /// the remainder is only constrained (negative operands): r ≡ a (mod b), |r| < |b|
    ModLoose(Rat, Rat),
    Undefined(&'static str),
    /// outside the judged alphabet (fractional exponent, astronomically large)
    Skip(&'static str),
}

const BIT_BUDGET: u64 = 40_000;

fn bits(r: &Rat) -> u64 {
    r.numer().bits().max(r.denom().bits())
}

pub fn reference(t: &T) -> Ref {
    match t {
        T::Lit(s) => match parse_literal(s) {
            Some(v) => Ref::Val(v),
            None => Ref::Skip("literal"),
        },
        T::Pos(x) => reference(x),
        T::Neg(x) => match reference(x) {
            Ref::Val(v) => Ref::Val(-v),
            Ref::ModLoose(..) => Ref::Skip("loose-mod operand"),
            o => o,
        },
        T::Bin(op, a, b) => {
            let a = match reference(a) {
                Ref::Val(v) => v,
                Ref::ModLoose(..) => return Ref::Skip("loose-mod operand"),
                o => return o,
            };
            let b = match reference(b) {
                Ref::Val(v) => v,
                Ref::ModLoose(..) => return Ref::Skip("loose-mod operand"),
                o => return o,
            };
            match op {
                Op::Add => Ref::Val(a + b),
                Op::Sub => Ref::Val(a - b),
                Op::Mul | Op::Juxt => Ref::Val(a * b),
                Op::Div | Op::Pipe => {
                    if b.is_zero() {
                        Ref::Undefined("division by zero")
                    } else {
                        Ref::Val(a / b)
                    }
                }
                Op::Pow | Op::StarStar => {
                    if !b.is_integer() {
                        return Ref::Skip("fractional exponent");
                    }
                    let e = match b.to_integer().to_i64() {
                        Some(e) if e.unsigned_abs() < (1 << 31) => e,
                        _ => return Ref::Skip("exponent beyond 2^31"),
                    };
                    if a.is_zero() && e < 0 {
                        return Ref::Undefined("zero to a negative power");
                    }
                    if bits(&a).saturating_mul(e.unsigned_abs()) > BIT_BUDGET {
                        return Ref::Skip("expensive power");
                    }
                    Ref::Val(pow_rat(&a, e).unwrap())
                }
                Op::Mod => {
                    if b.is_zero() {
                        return Ref::Undefined("mod by zero");
                    }
                    if !a.is_negative() && !b.is_negative() {
                        let q = (&a / &b).floor();
                        Ref::Val(&a - &b * q)
                    } else {
                        Ref::ModLoose(a, b)
                    }
                }
                Op::Shl | Op::Shr => {
                    if !b.is_integer() {
                        return Ref::Undefined("non-integer shift count");
                    }
                    let k = match b.to_integer().to_i64() {
                        Some(k) if k.unsigned_abs() < (1 << 31) => k,
                        _ => return Ref::Skip("shift beyond 2^31"),
                    };
                    if k.unsigned_abs() > BIT_BUDGET {
                        return Ref::Skip("expensive shift");
                    }
                    let k = if *op == Op::Shl { k } else { -k };
                    Ref::Val(a * pow_rat(&rat(2, 1), k).unwrap())
                }
                Op::And | Op::Or | Op::Xor => {
                    if !a.is_integer() || !b.is_integer() {
                        return Ref::Undefined("bit operator on non-integer");
                    }
                    let (x, y): (BigInt, BigInt) = (a.to_integer(), b.to_integer());
                    let r = match op {
                        Op::And => x & y,
                        Op::Or => x | y,
                        _ => x ^ y,
                    };
                    Ref::Val(Rat::from_integer(r))
                }
            }
        }
    }
}

// --------------------------------------------------------------------------

struct Family {
    shape: Shape,
    ops: &'static [Op],
    leaves: Vec<String>,
    root_sign: bool,
    k: usize,
    size: u64,
}

struct Sweep {
    bases: Vec<String>,
    ks: Vec<String>,
    ops: Vec<Op>,
}

impl Sweep {
    fn len(&self) -> u64 {
        (self.bases.len() * self.ks.len() * self.ops.len()) as u64
    }
    fn tree(&self, idx: u64) -> T {
        let d = decode(idx, &[self.ops.len() as u64, self.bases.len() as u64, self.ks.len() as u64]);
        T::Bin(self.ops[d[0] as usize], Box::new(mk_leaf(&self.bases[d[1] as usize])), Box::new(mk_leaf(&self.ks[d[2] as usize])))
    }
}

pub struct C01 {
    sweep: Sweep,
    sweep_start: u64,
    tier: String,
    fams: Vec<Family>,
    total: u64,
    ctx: Lazy<Context>,
}

fn leaves_core() -> Vec<String> {
    [
        "0", "1", "2", "3", "-2", "7", "10", "0.5", "1.5", "-0.5",
    ]
    .iter()
    .map(|s| s.to_string())
    .collect()
}

fn leaves_full() -> Vec<String> {
    let mut v: Vec<String> = [
        "0",
        "1",
        "2",
        "3",
        "-2",
        "7",
        "10",
        "0.5",
        "1.5",
        "-0.5",
        "0.125",
        "1e3",
        "1e-3",
        "2.5e2",
        "1_000",
        "1\u{2009}000",
        "0x1F",
        "0o17",
        "0b101",
        ".5",
        "-7",
        "64",
        "18446744073709551615",
        "18446744073709551617",
        "340282366920938463463374607431768211457",
        "1e30",
        "-1",
        // far outside the f64 range: exact arithmetic neither underflows nor overflows
        "1e-400",
        "1e400",
    ]
    .iter()
    .map(|s| s.to_string())
    .collect();
    // 2^4096 + 1 written out, and 10^-40
    let big = (BigInt::one() << 4096usize) + BigInt::one();
    v.push(big.to_string());
    v.push(format!("0.{}1", "0".repeat(39)));
    v
}

fn leaves_k3() -> Vec<String> {
    ["0", "2", "3", "-2", "0.5", "7"]
        .iter()
        .map(|s| s.to_string())
        .collect()
}

/// Every value in every notation that can express it.
fn notations() -> Vec<String> {
    let mut v = vec![];
    // ... including the values at which a machine word ends (a reader that takes a short cut through
    // u32/i64/u64/u128 for literals that fit goes wrong exactly there)
    for n in [
        0u128,
        1,
        5,
        31,
        255,
        1000,
        65536,
        1_000_000,
        4294967296,
        (1 << 31) - 1,
        1 << 31,
        (1 << 32) - 1,
        (1 << 53) + 1,
        (1 << 63) - 1,
        1 << 63,
        (1 << 63) + 1,
        u64::MAX as u128 - 1,
        u64::MAX as u128,
        1 << 64,
        (1 << 64) + 1,
        0xfedcba9876543210,
        1 << 127,
        u128::MAX,
    ] {
        v.push(format!("{}", n));
        v.push(format!("0x{:x}", n));
        v.push(format!("0x{:X}", n));
        v.push(format!("0o{:o}", n));
        v.push(format!("0b{:b}", n));
        v.push(format!("{}.0", n));
        v.push(format!("00{}", n));
        if n >= 1000 {
            let s = n.to_string();
            let (a, b) = s.split_at(s.len() - 3);
            v.push(format!("{}_{}", a, b));
            v.push(format!("{}\u{2009}{}", a, b));
            v.push(format!("{}.{}e3", a, b));
            v.push(format!("{}{}000e-3", a, b));
            v.push(format!("0x{:x}_{:x}", n >> 4, n & 15));
        }
        v.push(format!("{}e0", n));
        v.push(format!("{}E+0", n));
        v.push(format!("{}0e-1", n));
    }
    v
}

/// Digit separators (`_`, U+2009) at every place the lexer accepts one: after any digit, right after
/// the point, around the exponent marker and its sign, after a radix prefix - one separator per
/// literal, plus every gap at once. The reference reads the literal with the separators removed.
fn separators(bases: &[&str]) -> Vec<String> {
    let mut v = vec![];
    for b in bases {
        let cs: Vec<char> = b.chars().collect();
        let prefixed = b.starts_with("0x") || b.starts_with("0o") || b.starts_with("0b");
        let ok = |p: usize| -> bool {
            if p < if prefixed { 2 } else { 1 } {
                return false;
            }
            let prev = cs[p - 1];
            let next = cs.get(p).copied();
            if !prefixed && (prev == 'e' || prev == 'E') && matches!(next, Some('+') | Some('-')) {
                return false;
            }
            true
        };
        for sep in ['_', '\u{2009}'] {
            let mut all = String::new();
            for p in 0..=cs.len() {
                if p > 0 && ok(p) {
                    all.push(sep);
                    let mut one: String = cs[..p].iter().collect();
                    one.push(sep);
                    one.extend(cs[p..].iter());
                    v.push(one);
                }
                if p < cs.len() {
                    all.push(cs[p]);
                }
            }
            v.push(all);
        }
        v.push(b.to_string());
    }
    v
}

const SEP_BASES: [&str; 17] = [
    "1.25", "2.50e1", "0.001", "1.0001", "2.50e3", "0.000001", "1234.5678", "3.141592", "12e12", "1.5e-3", "1.25E+2", ".125",
    "0x1f2e", "0o1750", "0b100101", "100.001e-2", "7.0",
];

/// Every integer exponent / shift count in -130..=130 (machine-word boundaries 31/32/63/64/127/128
/// included) so that a fast path for "small" counts cannot hide an off-by-one.
fn int_sweep() -> Vec<String> {
    (-130i64..=130).map(|k| k.to_string()).collect()
}

fn sweep_bases() -> Vec<String> {
    ["1", "3", "-3", "0.5", "10", "-7|3"].iter().map(|s| s.to_string()).collect()
}

fn mk_leaf(s: &str) -> T {
    if let Some((n, d)) = s.split_once('|') {
        return T::Bin(Op::Pipe, Box::new(mk_leaf(n)), Box::new(T::Lit(d.to_string())));
    }
    if let Some(r) = s.strip_prefix('-') {
        T::Neg(Box::new(T::Lit(r.to_string())))
    } else {
        T::Lit(s.to_string())
    }
}

impl C01 {
    pub fn new(tier: &str) -> C01 {
        let mut fams = vec![];
        let mut add = |k: usize, ops: &'static [Op], leaves: Vec<String>, root_sign: bool| {
            for shape in shapes(k) {
                let size = (ops.len() as u64).pow(k as u32)
                    * (leaves.len() as u64).pow(k as u32 + 1)
                    * if root_sign { 3 } else { 1 };
                fams.push(Family {
                    shape,
                    ops,
                    leaves: leaves.clone(),
                    root_sign,
                    k,
                    size,
                });
            }
        };
        if tier == "thorough" {
            add(0, &OPS14, leaves_full(), true);
            add(1, &OPS14, leaves_full(), true);
            add(1, &OPS14, notations(), false);
            add(2, &OPS13, leaves_full()[..22].to_vec(), false);
            add(2, &OPS13, leaves_core(), true);
            add(3, &OPS13, leaves_k3(), false);
        } else {
            add(0, &OPS14, leaves_full(), true);
            add(1, &OPS14, leaves_full(), true);
            add(1, &OPS14, notations()[..40].to_vec(), false);
            add(2, &OPS13, leaves_core(), true);
        }
        // every notation of every boundary value as a literal of its own (with either sign)
        add(0, &OPS14, notations(), true);
        add(0, &OPS14, separators(&SEP_BASES), true);
        add(1, &OPS14, separators(&SEP_BASES[..3]), false);
        // exponent / shift-count sweep: `a op k` for every integer k in -130..=130
        let total0: u64 = fams.iter().map(|f| f.size).sum();
        let sweep = Sweep { bases: sweep_bases(), ks: int_sweep(), ops: vec![Op::Shl, Op::Shr, Op::Pow, Op::StarStar, Op::Mod, Op::And, Op::Or, Op::Xor] };
        let total = total0 + sweep.len();
        C01 {
            sweep,
            sweep_start: total0,
            tier: tier.to_string(),
            fams,
            total,
            ctx: Lazy::new(),
        }
    }

    fn tree(&self, mut idx: u64) -> T {
        if idx >= self.sweep_start {
            return self.sweep.tree(idx - self.sweep_start);
        }
        for f in &self.fams {
            if idx >= f.size {
                idx -= f.size;
                continue;
            }
            // slots: [root_sign] then preorder: node -> op, leaf -> literal
            let mut dims = vec![];
            if f.root_sign {
                dims.push(3);
            }
            fn push_dims(s: &Shape, nops: u64, nl: u64, dims: &mut Vec<u64>) {
                match s {
                    Shape::Leaf => dims.push(nl),
                    Shape::Node(a, b) => {
                        dims.push(nops);
                        push_dims(a, nops, nl, dims);
                        push_dims(b, nops, nl, dims);
                    }
                }
            }
            push_dims(&f.shape, f.ops.len() as u64, f.leaves.len() as u64, &mut dims);
            let digits = decode(idx, &dims);
            let mut pos = 0;
            let sign = if f.root_sign {
                pos += 1;
                digits[0]
            } else {
                0
            };
            fn build(s: &Shape, f: &Family, digits: &[u64], pos: &mut usize) -> T {
                match s {
                    Shape::Leaf => {
                        let t = mk_leaf(&f.leaves[digits[*pos] as usize]);
                        *pos += 1;
                        t
                    }
                    Shape::Node(a, b) => {
                        let op = f.ops[digits[*pos] as usize];
                        *pos += 1;
                        let l = build(a, f, digits, pos);
                        let r = build(b, f, digits, pos);
                        T::Bin(op, Box::new(l), Box::new(r))
                    }
                }
            }
            let t = build(&f.shape, f, &digits, &mut pos);
            let _ = f.k;
            return match sign {
                1 => T::Neg(Box::new(t)),
                2 => T::Pos(Box::new(t)),
                _ => t,
            };
        }
        panic!("index out of range");
    }
}

fn observe(ctx: &Context, q: &str) -> Result<Result<Rat, &'static str>, String> {
    match eval_q(ctx, q) {
        Ok(QueryReply::Number(parts)) => {
            let raw = parts.raw_value.ok_or("no raw value")?;
            if !raw.unit.is_empty() {
                return Err(format!("result carries a unit: {:?}", dims_of(&raw)));
            }
            match numeric_to_rat(&raw.value) {
                Some(r) => Ok(Ok(r)),
                None => Ok(Err("float")),
            }
        }
        Ok(other) => Err(format!("unexpected reply kind {}", reply_kind(&other))),
        Err(e) => Ok(Err(match e {
            rink_core::output::QueryError::Generic { .. } => "err",
            _ => "err-other",
        })),
    }
}

impl Space for C01 {
    fn meta(&self) -> Meta {
        Meta {
            id: "C01",
            level: "exploration",
            rule: "every expression tree with <=2 (quick) / <=3 (thorough) binary operator nodes over 14 operators (+ - * / | juxtaposition ^ ** mod << >> and or xor), optional unary sign, plus the sweep `a op k` for 8 operators x 6 bases x every integer k in -130..130 (word-size boundaries 31/32/63/64/127/128), and a boundary-value literal alphabet (all notations: decimal/fraction/exponent/hex/octal/binary of 23 values incl. 2^31-1, 2^31, 2^32-1, 2^53+1, 2^63-1, 2^63, 2^63+1, 2^64-2, 2^64-1, 2^64, 2^64+1, 2^127, 2^128-1, each also as a literal of its own; a `_` or U+2009 digit separator at every accepted position of 17 literals - integer part, fraction, after the point, around the exponent marker, after a radix prefix - singly and all at once; 2^64+-1, 2^128+1, 1e30, 2^4096+1, 1e-40, 1e-400 and 1e400 beyond the f64 range); each rendered fully parenthesised, minimally parenthesised per the manual's precedence table, AND fully parenthesised with every token in its other spelling (`per`, U+2212 minus, U+2215 division slash, `**` <-> `^`, trailing `// comment`), evaluated by rink and by an independent BigRational evaluator. Non-trivial = the reference defines a value or an undefined-case (not skipped as fractional-exponent/expensive); distinct = by rendered text".into(),
            assumptions: vec![
                "num-bigint/num-rational arithmetic is correct (shared trusted base)".into(),
                "explicit `*` associates with `/` at one level, left to right (as the repository's own parser tests pin)".into(),
                "mod with a negative operand: only r = a (mod b) and |r| < |b| is required".into(),
                "results whose intermediate values exceed 40000 bits are classified expensive and not evaluated here (C04 covers them)".into(),
            ],
            exhaustive: true,
            extra: json!({"tier_families": self.fams.iter().map(|f| json!({"binary_nodes": f.k, "operators": f.ops.len(), "leaves": f.leaves.len(), "root_sign": f.root_sign, "cases": f.size})).collect::<Vec<_>>()}),
        }
    }
    fn len(&self) -> u64 {
        self.total
    }
    fn describe(&self, idx: u64) -> String {
        let t = self.tree(idx);
        format!("{}  ||  {}", render_min(&t), render_full(&t))
    }
    fn chunk(&self) -> u64 {
        5000
    }
    fn reset(&mut self) {
        self.ctx.clear();
    }
    fn run(&mut self, idx: u64) -> CaseOut {
        let t = self.tree(idx);
        let want = reference(&t);
        if let Ref::Skip(why) = want {
            return CaseOut::ok(format!("skipped: {}", why));
        }
        let ctx = self.ctx.get(fresh_ctx);
        let mut out = CaseOut::ok("");
        let mut outcome = String::new();
        let mut renderings = vec![("min", render_min(&t)), ("full", render_full(&t))];
        if let Some(a) = render_alt(&t) {
            renderings.push(("alternative-spelling", a));
        }
        for (which, q) in renderings {
            let got = match observe(ctx, &q) {
                Ok(g) => g,
                Err(e) => {
                    out = out.viol(
                        "unexpected reply for pure arithmetic",
                        format!("`{}` ({} rendering): {}", q, which, e),
                    );
                    continue;
                }
            };
            let (o, bad): (&str, Option<(String, String)>) = match (&want, &got) {
                (Ref::Val(w), Ok(g)) => {
                    if w == g {
                        ("value", None)
                    } else {
                        (
                            "value",
                            Some((
                                format!("wrong value ({} rendering)", which),
                                format!("`{}` returned {} but the exact value is {}", q, g, w),
                            )),
                        )
                    }
                }
                (Ref::ModLoose(a, b), Ok(g)) => {
                    let k = (a - g) / b;
                    if k.is_integer() && g.abs() < b.abs() {
                        ("value(mod-neg)", None)
                    } else {
                        (
                            "value(mod-neg)",
                            Some((
                                "mod is not a remainder".into(),
                                format!("`{}` returned {}; a={}, b={}", q, g, a, b),
                            )),
                        )
                    }
                }
                (Ref::Undefined(_), Err("err")) | (Ref::Undefined(_), Err("err-other")) => {
                    ("undefined->error", None)
                }
                (Ref::Undefined(why), Ok(g)) => (
                    "undefined->number",
                    Some((
                        format!("number for undefined case: {}", why),
                        format!("`{}` returned {} although {}", q, g, why),
                    )),
                ),
                (_, Err("float")) => (
                    "float",
                    Some((
                        "float fallback".into(),
                        format!("`{}` returned a float for an all-rational input", q),
                    )),
                ),
                (Ref::Val(w), Err(_)) | (Ref::ModLoose(w, _), Err(_)) => (
                    "defined->error",
                    Some((
                        format!("error for defined value ({} rendering)", which),
                        format!("`{}` returned an error but the exact value is defined ({})", q, engine::util::clip(&w.to_string(), 60)),
                    )),
                ),
                _ => ("?", None),
            };
            if outcome.is_empty() {
                outcome = o.to_string();
            }
            if let Some((sig, detail)) = bad {
                out = out.viol(sig, detail);
            }
        }
        out.outcome = outcome;
        out.key = Some(hash64(&render_full(&t)));
        out
    }
    fn abnormal(&self, idx: u64, kind: Abnormal, info: &str) -> Option<Violation> {
        let t = self.tree(idx);
        Some(Violation {
            sig: format!(
                "{} in arithmetic: {}",
                engine::kind_name(kind),
                engine::util::normalise_panic(info)
            ),
            detail: format!("`{}`: {}", render_min(&t), info),
        })
    }
    fn time_limit(&self, _idx: u64) -> std::time::Duration {
        std::time::Duration::from_secs(if self.tier == "quick" { 3 } else { 5 })
    }
}

#[allow(dead_code)]
pub fn gcd_dummy(a: &BigInt, b: &BigInt) -> BigInt {
    a.gcd(b)
}
