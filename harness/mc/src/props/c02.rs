//! C02 — dimensional analysis is sound.  Own exponent-vector algebra over the
//! registry dump versus rink's result dimensionality, for every binary operator
//! over all ordered pairs of one representative per dimensionality, every
//! unary/power/root/function application over every unit, and depth-2 trees.

use crate::common::*;
use crate::regdump::{self, Dump};
use engine::util::{hash64, Fams};
use engine::{CaseOut, Meta, Space};
use rink_core::output::{QueryError, QueryReply};
use rink_core::Context;
use serde_json::json;

#[derive(Clone, Debug)]
struct Operand {
    text: String,
    dims: Dims,
    /// sign/zero of the exact value, if known: -1, 0, 1; 2 = unknown (float)
    sign: i8,
}

#[derive(Clone, Debug, PartialEq)]
enum Want {
    Dims(Dims),
    Refuse,
    /// allowed to refuse (legit value-dependent error) but if accepted must have these dims
    Either(Dims),
    /// not judged; recorded only
    Open,
}

const BINOPS: [&str; 10] = ["*", "/", "juxt", "|", "+", "-", "mod", "hypot", "atan2", "list"];
const COEFS: [(&str, i8); 4] = [("", 1), ("-2 ", -1), ("1|3 ", 1), ("0 ", 0)];
const CPAIRS: [(usize, usize); 6] = [(0, 0), (1, 2), (2, 1), (3, 0), (0, 3), (3, 3)];
const UNARY: [&str; 32] = [
    "^-3", "^-2", "^-1", "^0", "^1", "^2", "^3", "^(1|2)", "^(1|3)", "^(2|3)", "sqrt", "neg", "sin", "cos",
    "tan", "asin", "acos", "atan", "exp", "ln", "log2", "log10", "log(x,2)", "log(2,x)", "^(0.5)", "^(3|1)", "sinh",
    // the same exponents as machine floats (the result of a function): the algebra looks at the value
    "^sqrt(4)", "^sqrt(0.25)", "^sqrt(2)", "^-sqrt(9)", "^(sqrt(4) - 2)",
];
const TREEOPS: [&str; 5] = ["*", "/", " ", "+", "-"];

pub struct C02 {
    fams: Fams,
    reps: Vec<Operand>,
    all: Vec<Operand>,
    core: Vec<Operand>,
    ctx: Lazy<Context>,
}

fn radian() -> Dims {
    let mut d = Dims::new();
    d.insert("radian".into(), 1);
    d
}

fn sign_of(v: &Option<Rat>) -> i8 {
    match v {
        None => 2,
        Some(v) => {
            use num_traits::{Signed, Zero};
            if v.is_zero() {
                0
            } else if v.is_negative() {
                -1
            } else {
                1
            }
        }
    }
}

fn with_coef(o: &Operand, c: usize) -> Operand {
    let (t, s) = COEFS[c];
    if t.is_empty() {
        return o.clone();
    }
    Operand {
        text: format!("({}{})", t, o.text),
        dims: o.dims.clone(),
        sign: if o.sign == 2 { if s == 0 { 0 } else { 2 } } else { o.sign * s },
    }
}

impl C02 {
    pub fn new(_tier: &str) -> C02 {
        let ctx = fresh_ctx();
        let dump: Dump = regdump::dump(&ctx);
        let mut reps: Vec<Operand> = dump
            .representatives()
            .into_iter()
            .filter(|u| regdump::addressable(&u.name))
            .map(|u| Operand {
                text: regdump::q(&u.name),
                dims: u.dims.clone(),
                sign: sign_of(&u.value),
            })
            .collect();
        let mk_quote = |n: &str| {
            let mut d = Dims::new();
            d.insert(n.to_string(), 1);
            Operand {
                text: format!("'{}'", n),
                dims: d,
                sign: 1,
            }
        };
        reps.push(mk_quote("a"));
        reps.push(mk_quote("b"));
        reps.push(Operand {
            text: "1".into(),
            dims: Dims::new(),
            sign: 1,
        });
        let mut all: Vec<Operand> = vec![];
        for u in dump.units.values() {
            if regdump::addressable(&u.name) {
                all.push(Operand {
                    text: regdump::q(&u.name),
                    dims: u.dims.clone(),
                    sign: sign_of(&u.value),
                });
            }
        }
        for b in &dump.base_units {
            let mut d = Dims::new();
            d.insert(b.clone(), 1);
            all.push(Operand {
                text: regdump::q(b),
                dims: d.clone(),
                sign: 1,
            });
            // long name, prefixed and plural spellings of every base unit
            let long = dump.long_names.get(b).cloned().unwrap_or(b.clone());
            for n in [format!("kilo{}", long), format!("{}s", long), format!("m{}", b)] {
                if dump.units.contains_key(&n) || dump.base_units.contains(&n) {
                    continue; // exact names are already in `all`
                }
                if let Some(v) = ctx.lookup(&n) {
                    // the spelling must denote something of the base unit's dimensionality to be used
                    if dims_of(&v) == d {
                        all.push(Operand {
                            text: regdump::q(&n),
                            dims: d.clone(),
                            sign: 1,
                        });
                    }
                }
            }
        }
        all.push(mk_quote("a"));
        // a 10-unit core for depth-2 trees: cancel-then-reintroduce paths
        let core_names = ["m", "s", "kg", "N", "J", "Hz", "radian", "ft", "hour", "W"];
        let mut core: Vec<Operand> = core_names
            .iter()
            .filter_map(|n| {
                dump.exact(n).map(|(v, d)| Operand {
                    text: regdump::q(n),
                    dims: d,
                    sign: sign_of(&v),
                })
            })
            .collect();
        core.push(mk_quote("a"));
        let mut fams = Fams::default();
        let n = reps.len() as u64;
        fams.add("binary", vec![BINOPS.len() as u64, CPAIRS.len() as u64, n, n]);
        fams.add("unary", vec![UNARY.len() as u64, 2, all.len() as u64]);
        let c = core.len() as u64;
        fams.add("tree2", vec![2, TREEOPS.len() as u64, TREEOPS.len() as u64, c, c, c]);
        // a function applied to a power / reciprocal / square of every representative unit: the
        // angle and dimensionless tests must look at the exponent, not only at which base units occur
        fams.add("fn-of-power", vec![FN6.len() as u64, POWFORMS.len() as u64, n]);
        // unit lists of 3 and 4 members with one member of another dimensionality at every position
        fams.add("longer unit lists with one foreign member", vec![LISTFORMS.len() as u64, n, n]);
        // unit powers built up to the edge of the exponent type, then added/negated/multiplied
        fams.add("powers near the range of the exponent type", vec![EDGE_UNITS.len() as u64, EDGE_POWERS.len() as u64, EDGE_FORMS.len() as u64]);
        C02 {
            fams,
            reps,
            all,
            core,
            ctx: Lazy::new(),
        }
    }

    fn case(&self, idx: u64) -> (String, Want, bool) {
        let (f, d) = self.fams.locate(idx);
        match f {
            0 => {
                let op = BINOPS[d[0] as usize];
                let (ca, cb) = CPAIRS[d[1] as usize];
                let a = with_coef(&self.reps[d[2] as usize], ca);
                let b = with_coef(&self.reps[d[3] as usize], cb);
                let same = a.dims == b.dims;
                let (q, want) = match op {
                    "*" => (format!("{} * {}", a.text, b.text), Want::Dims(dims_mul(&a.dims, &b.dims, 1))),
                    "juxt" => (format!("{} {}", a.text, b.text), Want::Dims(dims_mul(&a.dims, &b.dims, 1))),
                    "/" | "|" => {
                        let dd = dims_mul(&a.dims, &b.dims, -1);
                        let q = if op == "/" {
                            format!("{} / {}", a.text, b.text)
                        } else {
                            format!("({})|({})", a.text, b.text)
                        };
                        (q, if b.sign == 0 { Want::Refuse } else if b.sign == 2 { Want::Either(dd) } else { Want::Dims(dd) })
                    }
                    "+" | "-" => (
                        format!("{} {} {}", a.text, op, b.text),
                        if same { Want::Dims(a.dims.clone()) } else { Want::Refuse },
                    ),
                    "mod" => (
                        format!("{} mod {}", a.text, b.text),
                        if !same {
                            Want::Refuse
                        } else if b.sign == 0 {
                            Want::Refuse
                        } else if b.sign == 2 {
                            Want::Either(a.dims.clone())
                        } else {
                            Want::Dims(a.dims.clone())
                        },
                    ),
                    "hypot" => (
                        format!("hypot({}, {})", a.text, b.text),
                        if same { Want::Dims(a.dims.clone()) } else { Want::Refuse },
                    ),
                    "atan2" => (
                        format!("atan2({}, {})", a.text, b.text),
                        if same { Want::Dims(radian()) } else { Want::Refuse },
                    ),
                    _ => {
                        // unit list: value a converted to the list a;b (names only, so use the bare reps)
                        let ra = &self.reps[d[2] as usize];
                        let rb = &self.reps[d[3] as usize];
                        if ra.text.starts_with('\'') || rb.text.starts_with('\'') || ra.text == "1" || rb.text == "1" {
                            return (format!("skip list {} {}", ra.text, rb.text), Want::Open, false);
                        }
                        let q = format!("3 {} -> {};{}", ra.text, ra.text, rb.text);
                        let want = if ra.dims == rb.dims {
                            if rb.sign == 0 || ra.sign == 0 { Want::Open } else { Want::Dims(Dims::new()) }
                        } else {
                            Want::Refuse
                        };
                        return (q, want, true);
                    }
                };
                (q, want, false)
            }
            1 => {
                let k = UNARY[d[0] as usize];
                let o = with_coef(&self.all[d[2] as usize], if d[1] == 0 { 0 } else { 1 });
                let x = &o.text;
                let dl = o.dims.is_empty();
                let angle = dl || o.dims == radian();
                let root = |n: i64, p: i64| -> Want {
                    if o.dims.values().all(|e| e % n == 0) {
                        let dd: Dims = o.dims.iter().map(|(k, e)| (k.clone(), e / n * p)).collect();
                        if o.sign == 1 && p == 1 { Want::Dims(dd) } else { Want::Either(dd) }
                    } else {
                        Want::Refuse
                    }
                };
                let (q, want) = match k {
                    "^-3" | "^-2" | "^-1" | "^0" | "^1" | "^2" | "^3" | "^(3|1)" => {
                        let e: i64 = if k == "^(3|1)" { 3 } else { k[1..].parse().unwrap() };
                        let dd = dims_pow(&o.dims, e);
                        (
                            format!("{}{}", x, k),
                            if e < 0 && o.sign == 0 { Want::Refuse } else if e < 0 && o.sign == 2 { Want::Either(dd) } else { Want::Dims(dd) },
                        )
                    }
                    "^sqrt(4)" | "^-sqrt(9)" | "^(sqrt(4) - 2)" => {
                        let e: i64 = match k {
                            "^sqrt(4)" => 2,
                            "^-sqrt(9)" => -3,
                            _ => 0,
                        };
                        let dd = dims_pow(&o.dims, e);
                        // a float power of a float-valued or zero operand may be refused for its value
                        (format!("({}){}", x, k), if (e < 0 && o.sign != 1) || o.sign == 2 { Want::Either(dd) } else { Want::Dims(dd) })
                    }
                    "^sqrt(0.25)" => (format!("({}){}", x, k), match root(2, 1) {
                        Want::Dims(d) => Want::Either(d),
                        w => w,
                    }),
                    "^sqrt(2)" => (format!("({}){}", x, k), if dl { Want::Open } else { Want::Refuse }),
                    "^(1|2)" | "^(0.5)" => (format!("{}{}", x, k), root(2, 1)),
                    "^(1|3)" => (format!("{}{}", x, k), root(3, 1)),
                    "^(2|3)" => (
                        format!("{}{}", x, k),
                        // the statement gives no rule for p/q powers with p != 1: accepted only if exact
                        match root(3, 2) {
                            Want::Dims(d) | Want::Either(d) => Want::Either(d),
                            w => w,
                        },
                    ),
                    "sqrt" => (format!("sqrt({})", x), root(2, 1)),
                    "neg" => (format!("-{}", x), Want::Dims(o.dims.clone())),
                    "sin" | "cos" | "tan" => (
                        format!("{}({})", k, x),
                        if angle { Want::Dims(Dims::new()) } else { Want::Refuse },
                    ),
                    "asin" | "acos" | "atan" => (
                        format!("{}({})", k, x),
                        if dl { Want::Dims(radian()) } else { Want::Refuse },
                    ),
                    "log(x,2)" => (format!("log({}, 2)", x), Want::Open),
                    "log(2,x)" => (
                        format!("log(2, {})", x),
                        if dl { Want::Dims(Dims::new()) } else { Want::Refuse },
                    ),
                    _ => (format!("{}({})", k, x), Want::Open),
                };
                (q, want, false)
            }
            3 => {
                let k = FN6[d[0] as usize];
                let form = POWFORMS[d[1] as usize];
                let o = &self.reps[d[2] as usize];
                let x = &o.text;
                let (arg, e): (String, i64) = match form {
                    "x*x" => (format!("{} * {}", x, x), 2),
                    "1/x" => (format!("1 / {}", x), -1),
                    "x x x" => (format!("{} {} {}", x, x, x), 3),
                    f => (format!("{}{}", x, f), f[1..].parse().unwrap()),
                };
                let dd = dims_pow(&o.dims, e);
                let ok = match k {
                    "sin" | "cos" | "tan" => dd.is_empty() || dd == radian(),
                    _ => dd.is_empty(),
                };
                let res = match k {
                    "sin" | "cos" | "tan" => Dims::new(),
                    _ => radian(),
                };
                let want = if !ok || (e < 0 && o.sign == 0) {
                    Want::Refuse
                } else if e < 0 && o.sign == 2 {
                    Want::Either(res)
                } else {
                    Want::Dims(res)
                };
                (format!("{}({})", k, arg), want, false)
            }
            5 => {
                let u = EDGE_UNITS[d[0] as usize];
                let (ptext, p) = EDGE_POWERS[d[1] as usize];
                let (form, mult) = EDGE_FORMS[d[2] as usize];
                let x = ptext.replace("{u}", u);
                let q = form.replace("{x}", &x);
                // exact exponent in wide arithmetic; every intermediate of these forms is a prefix
                // multiple of p, so the final one is the largest
                let e = p * mult as i128;
                let want = if mult == 0 {
                    Want::Either(Dims::new())
                } else if e.unsigned_abs() <= i64::MAX as u128 {
                    let mut dd = Dims::new();
                    dd.insert(u.to_string(), e as i64);
                    // a calculator may refuse powers this large, but never answer with another one
                    Want::Either(dd)
                } else {
                    Want::Refuse
                };
                (q, want, false)
            }
            4 => {
                let ra = &self.reps[d[1] as usize];
                let rb = &self.reps[d[2] as usize];
                if ra.text.starts_with('\'') || rb.text.starts_with('\'') || ra.text == "1" || rb.text == "1" || ra.sign != 1 || rb.sign != 1 {
                    return (format!("skip list {} {}", ra.text, rb.text), Want::Open, false);
                }
                let list = LISTFORMS[d[0] as usize].replace('a', "\u{1}").replace('b', &rb.text).replace('\u{1}', &ra.text);
                let q = format!("3 {} -> {}", ra.text, list);
                let want = if ra.dims == rb.dims { Want::Dims(Dims::new()) } else { Want::Refuse };
                return (q, want, true);
            }
            _ => {
                let shape = d[0];
                let (o1, o2) = (TREEOPS[d[1] as usize], TREEOPS[d[2] as usize]);
                let (a, b, c) = (&self.core[d[3] as usize], &self.core[d[4] as usize], &self.core[d[5] as usize]);
                fn ap(op: &str, x: &Want, y: &Want) -> Want {
                    match (x, y) {
                        (Want::Dims(x), Want::Dims(y)) => match op {
                            "*" | " " => Want::Dims(dims_mul(x, y, 1)),
                            "/" => Want::Dims(dims_mul(x, y, -1)),
                            _ => {
                                if x == y {
                                    Want::Dims(x.clone())
                                } else {
                                    Want::Refuse
                                }
                            }
                        },
                        _ => Want::Refuse,
                    }
                }
                let (wa, wb, wc) = (Want::Dims(a.dims.clone()), Want::Dims(b.dims.clone()), Want::Dims(c.dims.clone()));
                let (q, want) = if shape == 0 {
                    (
                        format!("({}{}{}){}{}", a.text, pad(o1), b.text, pad(o2), c.text),
                        ap(o2, &ap(o1, &wa, &wb), &wc),
                    )
                } else {
                    (
                        format!("{}{}({}{}{})", a.text, pad(o1), b.text, pad(o2), c.text),
                        ap(o1, &wa, &ap(o2, &wb, &wc)),
                    )
                };
                // (x - x) / y style: a zero divisor is a legitimate refusal
                let want = match want {
                    Want::Dims(d) if q.contains('-') && q.contains('/') => Want::Either(d),
                    w => w,
                };
                (q, want, false)
            }
        }
    }
}

const EDGE_UNITS: [&str; 3] = ["m", "s", "kg"];
/// (text, exact exponent)
const EDGE_POWERS: [(&str, i128); 18] = [
    // a single exponent at the ends of i32/u32 (the evaluator narrows the exponent to an i32)
    ("({u}^2147483647)", 2147483647),
    ("({u}^2147483648)", 2147483648),
    ("({u}^2147483649)", 2147483649),
    ("({u}^-2147483647)", -2147483647),
    ("({u}^-2147483648)", -2147483648),
    ("({u}^-2147483649)", -2147483649),
    ("({u}^4294967295)", 4294967295),
    ("({u}^4294967296)", 4294967296),
    ("({u}^4294967297)", 4294967297),
    ("(({u}^2147483647)^1073741824)", 2147483647 * 1073741824),
    ("(({u}^-2147483647)^1073741824)", -2147483647 * 1073741824),
    ("(({u}^2147483647)^1073741823)", 2147483647 * 1073741823),
    ("(({u}^2147483647)^2147483647)", 2147483647 * 2147483647),
    ("(({u}^-2147483647)^2147483647)", -2147483647 * 2147483647),
    ("((({u}^-2097152)^2097152)^524288)", -(1 << 61)),
    ("((({u}^-2097152)^2097152)^1048576)", -(1 << 62)),
    ("((({u}^-2097152)^2097152)^2097152)", -(1 << 63)),
    ("((({u}^2097152)^2097152)^2097151)", (1 << 63) - (1 << 42)),
];
/// (form, the multiple of the operand's exponent that the result carries; 0 = cancels)
const EDGE_FORMS: [(&str, i64); 18] = [
    ("{x}", 1),
    ("1/{x}", -1),
    ("{x}*{x}", 2),
    ("{x}*{x}*{x}", 3),
    ("{x}*{x}*{x}*{x}", 4),
    ("{x} {x} {x} {x}", 4),
    ("{x}/(1/{x})", 2),
    ("1/{x}/{x}/{x}/{x}", -4),
    ("{x}^2", 2),
    ("{x}^4", 4),
    ("{x}^-4", -4),
    ("{x}^-1", -1),
    ("-{x}", 1),
    ("{x} + {x}", 1),
    ("{x}/{x}", 0),
    ("(2 {x})*(3 {x})", 2),
    ("1|3 {x}*{x}*{x}", 3),
    ("({x}*{x})/{x}", 1),
];
const LISTFORMS: [&str; 7] = ["a;a;b", "a;b;a", "b;a;a", "a;a;a;b", "a;a;b;a", "a;b;a;a", "b;a;a;a"];
const FN6: [&str; 6] = ["sin", "cos", "tan", "asin", "acos", "atan"];
const POWFORMS: [&str; 9] = ["^-3", "^-2", "^-1", "^0", "^2", "^3", "x*x", "1/x", "x x x"];

fn pad(op: &str) -> String {
    if op == " " {
        " ".into()
    } else {
        format!(" {} ", op)
    }
}

fn has_zero(n: &rink_core::types::Number) -> bool {
    n.unit.iter().any(|(_, e)| *e == 0)
}

impl Space for C02 {
    fn meta(&self) -> Meta {
        Meta {
            id: "C02",
            level: "exploration",
            rule: "10 binary operators/functions (* / juxtaposition | + - mod hypot atan2 unit-list) x 6 coefficient pairs (a zero coefficient on either or both sides: adding nothing is still an addition) x all ordered pairs of one representative unit per distinct dimensionality of the registry (+ two quoted ad-hoc base units + a dimensionless operand); 32 unary/power/root/function applications (five of them exponents that are machine floats: sqrt(4), sqrt(0.25), sqrt(2), -sqrt(9), sqrt(4) - 2) x {1, -2} coefficient x every unit, base unit and long/prefixed/plural base-unit spelling; both depth-2 shapes x 5x5 operators over an 11-unit core; 6 trigonometric functions x 9 power/reciprocal/product forms (x^-3..x^3, x*x, 1/x, x x x) of every representative unit (an angle squared is not an angle); unit lists of 3 and 4 members with one member of another dimensionality at every position, over all ordered pairs of representatives; 3 base units x 18 exponents (single exponents at +-2^31 and 2^32 and their neighbours; magnitudes 2^61..2^63 built by nested powers) x 18 product/quotient/power/negation forms, where the exact exponent is computed in 128-bit arithmetic (a refusal is accepted, another exponent or a missing unit is not, and a result beyond i64 must be refused). Oracle: own exponent-vector algebra on the registry dump. Non-trivial = judged (expected dims or expected refusal defined); distinct by query text".into(),
            assumptions: vec![
                "the registry dump (C08 validates it) gives each unit's dimensionality".into(),
                "exp/ln/log/hyperbolic functions of dimensioned arguments and p/q powers with p != 1 are recorded, not judged (the statement gives no rule)".into(),
                "refusing a dimensionally valid operation counts as a violation unless a value-dependent reason exists (zero divisor, negative radicand)".into(),
            ],
            exhaustive: true,
            extra: json!({"families": self.fams.summary(), "representatives": self.reps.len(), "units_swept": self.all.len()}),
        }
    }
    fn len(&self) -> u64 {
        self.fams.total()
    }
    fn describe(&self, idx: u64) -> String {
        self.case(idx).0
    }
    fn sample_indices(&self) -> Vec<u64> {
        self.fams.starts()
    }
    fn chunk(&self) -> u64 {
        4000
    }
    fn reset(&mut self) {
        self.ctx.clear();
    }
    fn run(&mut self, idx: u64) -> CaseOut {
        let (q, want, is_list) = self.case(idx);
        if q.starts_with("skip ") {
            return CaseOut::ok("skipped");
        }
        let ctx = self.ctx.get(fresh_ctx);
        let res = eval_q(ctx, &q);
        let mut out = CaseOut::ok("");
        let got: Result<Option<Dims>, &QueryError> = match &res {
            Ok(QueryReply::Number(p)) => {
                let raw = p.raw_value.as_ref().unwrap();
                if has_zero(raw) {
                    out = out.viol("base unit carried with exponent zero", format!("`{}` -> unit {:?}", q, dims_of(raw)));
                }
                if let Some(rd) = &p.raw_dimensions {
                    let rd: Dims = rd.iter().map(|(k, v)| (k.to_string(), *v)).collect();
                    if rd.values().any(|v| *v == 0) {
                        out = out.viol("base unit carried with exponent zero", format!("`{}` -> raw_dimensions {:?}", q, rd));
                    }
                }
                let mut d = dims_of(raw);
                d.retain(|_, v| *v != 0);
                Ok(Some(d))
            }
            Ok(QueryReply::Duration(p)) => {
                let raw = p.raw.raw_value.as_ref().unwrap();
                Ok(Some(dims_of(raw)))
            }
            Ok(QueryReply::UnitList(_)) if is_list => Ok(Some(Dims::new())),
            Ok(_) => Ok(None),
            Err(e) => Err(e),
        };
        let outcome;
        match (&want, &got) {
            (Want::Open, Ok(_)) => outcome = "unjudged: accepted",
            (Want::Open, Err(_)) => outcome = "unjudged: refused",
            (Want::Dims(w), Ok(Some(g))) | (Want::Either(w), Ok(Some(g))) => {
                outcome = "accepted, dims agree";
                if w != g {
                    out = out.viol(
                        "wrong dimensionality",
                        format!("`{}` has dimensionality {} but rink returned {}", q, dims_str(w), dims_str(g)),
                    );
                }
            }
            (Want::Dims(w), Err(e)) => {
                outcome = "refused although valid";
                out = out.viol(
                    "refused a dimensionally valid operation",
                    format!("`{}` should have dimensionality {} but was refused: {}", q, dims_str(w), e),
                );
            }
            (Want::Either(_), Err(_)) => outcome = "refused (value-dependent reason allowed)",
            (Want::Refuse, Err(_)) => outcome = "refused as required",
            (Want::Refuse, Ok(g)) => {
                outcome = "accepted although invalid";
                out = out.viol(
                    "accepted a dimensionally invalid operation",
                    format!("`{}` must be refused but returned {:?}", q, g.as_ref().map(dims_str)),
                );
            }
            (_, Ok(None)) => {
                outcome = "unexpected reply kind";
                out = out.viol("unexpected reply kind", format!("`{}` -> {}", q, reply_kind(res.as_ref().unwrap())));
            }
        }
        out.outcome = outcome.to_string();
        if want != Want::Open {
            out.key = Some(hash64(&q));
        }
        out
    }
}
