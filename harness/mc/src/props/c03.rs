//! C03 — conversions are exact and conformance-gated.

use crate::common::*;
use crate::regdump::{self, Dump, Reading};
use engine::util::{hash64, Fams};
use engine::{CaseOut, Meta, Space};
use num_traits::{One, Signed, ToPrimitive, Zero};
use rink_core::output::{QueryError, QueryReply};
use rink_core::Context;
use serde_json::json;

#[derive(Clone, Debug)]
struct U {
    name: String,
    value: Option<Rat>,
    fvalue: f64,
    dims: Dims,
}

pub struct C03 {
    fams: Fams,
    units: Vec<U>,
    pairs: Vec<(u32, u32)>,
    reps: Vec<U>,
    core300: Vec<usize>,
    prefixes: Vec<String>,
    core12: Vec<U>,
    vals: Vec<(String, Rat)>,
    src_forms: Vec<usize>,
    dump: Dump,
    ctx: Lazy<Context>,
}

const NFORMS: usize = 22;
const KILO: i64 = 1000;
const POWS: [i64; 4] = [2, 14, -14, 30];
/// Unit powers at the ends of i32 / u32, written directly and reached in two steps. (text, exponent)
const EDGE_FORMS: [(&str, i128); 11] = [
    ("{u}^2147483647", 2147483647),
    ("{u}^2147483648", 2147483648),
    ("{u}^2147483649", 2147483649),
    ("{u}^-2147483647", -2147483647),
    ("{u}^-2147483648", -2147483648),
    ("{u}^-2147483649", -2147483649),
    ("{u}^4294967296", 4294967296),
    ("({u}^1073741824)^2", 2147483648),
    ("{u}^2147483647 {u}", 2147483648),
    ("({u}^-1073741824)^2", -2147483648),
    ("({u}^65536)^65536", 4294967296),
];
const EDGE_UNITS: [&str; 3] = ["m", "s", "kg"];

fn rat_text(r: &Rat) -> String {
    if r.is_integer() {
        if r.is_negative() {
            format!("(-{})", -r.numer())
        } else {
            format!("{}", r.numer())
        }
    } else if r.is_negative() {
        format!("(-{}|{})", -r.numer(), r.denom())
    } else {
        format!("({}|{})", r.numer(), r.denom())
    }
}

/// (text, value, dims) of target/source form `f` over units t, u
fn form(f: usize, t: &U, u: &U) -> (String, Rat, Dims) {
    let (tn, un) = (regdump::q(&t.name), regdump::q(&u.name));
    let tv = t.value.clone().unwrap();
    let uv = u.value.clone().unwrap();
    match f {
        0 => (tn, tv, t.dims.clone()),
        1 => (format!("3 {}", tn), rat(3, 1) * tv, t.dims.clone()),
        2 => (format!("{}/3", tn), tv / rat(3, 1), t.dims.clone()),
        3 => (format!("1|3 {}", tn), tv / rat(3, 1), t.dims.clone()),
        4 => (format!("{}^2", tn), &tv * &tv, dims_pow(&t.dims, 2)),
        5 => (format!("{}^-1", tn), Rat::one() / tv, dims_pow(&t.dims, -1)),
        6 => (format!("{} {}", tn, un), tv * uv, dims_mul(&t.dims, &u.dims, 1)),
        7 => (format!("{}/{}", tn, un), tv / uv, dims_mul(&t.dims, &u.dims, -1)),
        8 => (
            regdump::q(&format!("kilo{}", t.name)),
            tv * rat(KILO, 1),
            t.dims.clone(),
        ),
        9 => (format!("foo = 3 {}", tn), rat(3, 1) * tv, t.dims.clone()),
        10 => (format!("-{}", tn), -tv, t.dims.clone()),
        11 => (
            format!("{}^2/{}", tn, un),
            &tv * &tv / uv,
            dims_mul(&dims_pow(&t.dims, 2), &u.dims, -1),
        ),
        13 => (format!("{}^1", tn), tv, t.dims.clone()),
        // zero-valued targets: refused for what they are (not conformable) before the division is tried
        14 => (format!("0 {}", tn), Rat::zero(), t.dims.clone()),
        15 => (format!("({} - {})", tn, tn), Rat::zero(), t.dims.clone()),
        // constants far outside the f64 range: exact arithmetic has no underflow or overflow
        16 => (format!("1e-400 {}", tn), pow_rat(&rat(10, 1), -400).unwrap() * tv, t.dims.clone()),
        17 => (format!("1e400 {}", tn), pow_rat(&rat(10, 1), 400).unwrap() * tv, t.dims.clone()),
        // signed constants at the start of a target (the same position as a +hh:mm time offset)
        18 => (format!("-12 {}", tn), rat(-12, 1) * tv, t.dims.clone()),
        19 => (format!("+12 {}", tn), rat(12, 1) * tv, t.dims.clone()),
        20 => (format!("-12*{}", tn), rat(-12, 1) * tv, t.dims.clone()),
        21 => (format!("-05 {}", tn), rat(-5, 1) * tv, t.dims.clone()),
        _ => (
            format!("(2 {})^2", tn),
            rat(4, 1) * &tv * &tv,
            dims_pow(&t.dims, 2),
        ),
    }
}

impl C03 {
    pub fn new(tier: &str) -> C03 {
        let ctx = fresh_ctx();
        let dump = regdump::dump(&ctx);
        let mut units: Vec<U> = vec![];
        for b in &dump.base_units {
            let mut d = Dims::new();
            d.insert(b.clone(), 1);
            units.push(U { name: b.clone(), value: Some(rat(1, 1)), fvalue: 1.0, dims: d });
        }
        for u in dump.units.values() {
            if regdump::addressable(&u.name) {
                units.push(U { name: u.name.clone(), value: u.value.clone(), fvalue: u.fvalue, dims: u.dims.clone() });
            }
        }
        let mut by: std::collections::BTreeMap<String, Vec<u32>> = Default::default();
        for (i, u) in units.iter().enumerate() {
            by.entry(dims_str(&u.dims)).or_default().push(i as u32);
        }
        let mut pairs = vec![];
        for g in by.values() {
            for a in g {
                for b in g {
                    pairs.push((*a, *b));
                }
            }
        }
        let reps: Vec<U> = dump
            .representatives()
            .into_iter()
            .map(|u| U { name: u.name.clone(), value: u.value.clone(), fvalue: u.fvalue, dims: u.dims.clone() })
            .collect();
        let step = if tier == "thorough" { 3 } else { 8 };
        let core300: Vec<usize> = (0..units.len()).step_by(step).collect();
        let prefixes: Vec<String> = dump.prefixes.iter().map(|p| p.0.clone()).collect();
        let core12: Vec<U> = ["m", "ft", "inch", "s", "hour", "kg", "lb", "N", "J", "W", "Hz", "mile"]
            .iter()
            .map(|n| {
                let (v, d) = dump.exact(n).unwrap_or_else(|| panic!("core unit {} missing", n));
                U { name: n.to_string(), value: v, fvalue: 0.0, dims: d }
            })
            .collect();
        let mut vals = vec![("1".to_string(), rat(1, 1)), ("(-7|3)".to_string(), rat(-7, 3))];
        let mut src_forms = vec![0, 6, 7, 13];
        if tier == "thorough" {
            vals.push(("1e-30".to_string(), pow_rat(&rat(10, 1), -30).unwrap()));
            vals.push(("1e40".to_string(), pow_rat(&rat(10, 1), 40).unwrap()));
            src_forms = vec![0, 4, 5, 6, 7, 13, 16, 17];
        }
        let mut fams = Fams::default();
        fams.add("conformable-pairs", vec![pairs.len() as u64]);
        fams.add("refusal", vec![units.len() as u64, reps.len() as u64]);
        fams.add("prefix-plural-target", vec![core300.len() as u64, prefixes.len() as u64 + 1, 2]);
        let c = core12.len() as u64;
        fams.add(
            "compound",
            vec![vals.len() as u64, src_forms.len() as u64, c, c, NFORMS as u64, c, c],
        );
        fams.add("powers of prefixed targets: 1 t^p -> (prefix t)^p", vec![c, prefixes.len() as u64, POWS.len() as u64]);
        fams.add("unit powers at the ends of i32: 1 u^a -> u^b", vec![EDGE_UNITS.len() as u64, EDGE_FORMS.len() as u64, EDGE_FORMS.len() as u64]);
        C03 { fams, units, pairs, reps, core300, prefixes, core12, vals, src_forms, dump, ctx: Lazy::new() }
    }
}

enum Plan {
    /// (query, expected exact raw value or float approx, round-trip query)
    /// tdims: the target's dimensionality where the reply's own naming of the target is judged too
    Exact { q: String, want: Option<Rat>, fwant: f64, back: Option<String>, tdims: Option<Dims> },
    Refuse { q: String, left: Dims, right: Dims },
    AnyErr { q: String },
    /// target name has several readings (competing prefixes): value must match one of them
    OneOf { q: String, wants: Vec<Rat> },
    /// powers of a base unit: a number (1) only if the exponents agree, a conformance error only if
    /// they differ; any other error (the exponent is too large for the evaluator) is accepted
    Edge { q: String, same: bool },
    Skip(&'static str),
}

impl C03 {
    fn plan(&self, idx: u64) -> Plan {
        let (f, d) = self.fams.locate(idx);
        match f {
            0 => {
                let (a, b) = self.pairs[d[0] as usize];
                let (u, t) = (&self.units[a as usize], &self.units[b as usize]);
                let q = format!("1 {} -> {}", regdump::q(&u.name), regdump::q(&t.name));
                match (&u.value, &t.value) {
                    (Some(uv), Some(tv)) => {
                        if tv.is_zero() {
                            return Plan::AnyErr { q };
                        }
                        let x = uv / tv;
                        let back = format!("{} {} -> {}", rat_text(&x), regdump::q(&t.name), regdump::q(&u.name));
                        Plan::Exact { q, want: Some(x), fwant: 0.0, back: if uv.is_zero() { None } else { Some(back) }, tdims: None }
                    }
                    _ => Plan::Exact { q, want: None, fwant: u.fvalue / t.fvalue, back: None, tdims: None },
                }
            }
            1 => {
                let u = &self.units[d[0] as usize];
                let r = &self.reps[d[1] as usize];
                if u.dims == r.dims {
                    return Plan::Skip("same dimensionality");
                }
                Plan::Refuse {
                    q: format!("1 {} -> {}", regdump::q(&u.name), regdump::q(&r.name)),
                    left: u.dims.clone(),
                    right: r.dims.clone(),
                }
            }
            2 => {
                let u = &self.units[self.core300[d[0] as usize]];
                let mut name = if (d[1] as usize) < self.prefixes.len() {
                    format!("{}{}", self.prefixes[d[1] as usize], u.name)
                } else {
                    u.name.clone()
                };
                if d[2] == 1 {
                    name.push('s');
                } else if (d[1] as usize) == self.prefixes.len() {
                    return Plan::Skip("plain name (covered by the pair sweep)");
                }
                if !regdump::addressable(&name) {
                    return Plan::Skip("not addressable");
                }
                let q = format!("1 {} -> {}", regdump::q(&u.name), regdump::q(&name));
                let readings: Vec<Reading> = self.dump.resolve(&name);
                if readings.is_empty() {
                    // may still be a substance or formula: not a unit -> some error
                    return Plan::AnyErr { q };
                }
                let uv = match &u.value {
                    Some(v) => v.clone(),
                    None => return Plan::Skip("float-valued unit"),
                };
                if readings.iter().any(|r| r.dims != u.dims) {
                    if readings.iter().all(|r| r.dims != u.dims) {
                        return Plan::Refuse { q, left: u.dims.clone(), right: readings[0].dims.clone() };
                    }
                    return Plan::Skip("competing readings of different dimensionality");
                }
                let wants: Vec<Rat> = readings
                    .iter()
                    .filter_map(|r| r.value.clone())
                    .filter(|v| !v.is_zero())
                    .map(|tv| &uv / tv)
                    .collect();
                if wants.is_empty() {
                    return Plan::Skip("no exact reading");
                }
                Plan::OneOf { q, wants }
            }
            5 => {
                let u = EDGE_UNITS[d[0] as usize];
                let (a, ea) = EDGE_FORMS[d[1] as usize];
                let (b, eb) = EDGE_FORMS[d[2] as usize];
                Plan::Edge { q: format!("1 {} -> {}", a.replace("{u}", u), b.replace("{u}", u)), same: ea == eb }
            }
            4 => {
                // (yocto t)^14 is 1e-336 t^14: beyond f64, exact for rationals
                let t = &self.core12[d[0] as usize];
                let name = format!("{}{}", self.prefixes[d[1] as usize], t.name);
                let p = POWS[d[2] as usize];
                let readings: Vec<Reading> = self.dump.resolve(&name);
                if readings.len() != 1 || readings[0].dims != t.dims || !regdump::addressable(&name) {
                    return Plan::Skip("prefixed name has no unique reading of this dimensionality");
                }
                let (tv, pv) = match (&t.value, &readings[0].value) {
                    (Some(a), Some(b)) if !b.is_zero() => (a.clone(), b.clone()),
                    _ => return Plan::Skip("float-valued unit"),
                };
                let q = format!("1 {}^{} -> {}^{}", regdump::q(&t.name), p, regdump::q(&name), p);
                match pow_rat(&(tv / pv), p) {
                    Some(x) => Plan::Exact { q, want: Some(x), fwant: 0.0, back: None, tdims: None },
                    None => Plan::Skip("power not computable"),
                }
            }
            _ => {
                let (vt, v) = &self.vals[d[0] as usize];
                let sf = self.src_forms[d[1] as usize];
                let (st, sv, sd) = form(sf, &self.core12[d[2] as usize], &self.core12[d[3] as usize]);
                let (tt, tv, td) = form(d[4] as usize, &self.core12[d[5] as usize], &self.core12[d[6] as usize]);
                let q = format!("{} * ({}) -> {}", vt, st, tt);
                if sd != td {
                    return Plan::Refuse { q, left: sd, right: td };
                }
                if tv.is_zero() {
                    return Plan::AnyErr { q };
                }
                Plan::Exact { q, want: Some(v * sv / tv), fwant: 0.0, back: None, tdims: Some(td) }
            }
        }
    }
}

/// Parse the quantity description used in conformance suggestions back into an exponent vector.
fn parse_desc(dump: &Dump, desc: &str) -> Option<Dims> {
    let mut out = Dims::new();
    let mut sign = 1;
    for tok in desc.split_whitespace() {
        if tok == "/" {
            sign = -1;
            continue;
        }
        let (name, pow) = match tok.rsplit_once('^') {
            Some((n, p)) => (n, p.parse::<i64>().ok()?),
            None => (tok, 1),
        };
        let d: Dims = if name.starts_with('\'') && name.ends_with('\'') && name.len() >= 2 {
            let mut d = Dims::new();
            d.insert(name[1..name.len() - 1].to_string(), 1);
            d
        } else {
            dump.quantity_dims.get(name)?.clone()
        };
        out = dims_mul(&out, &dims_pow(&d, pow), sign);
    }
    Some(out)
}

fn check_suggestions(dump: &Dump, left: &Dims, right: &Dims, sugg: &[String]) -> Result<(), String> {
    let recip = dims_mul(left, right, 1).is_empty();
    let has_recip = sugg.iter().any(|s| s.contains("Reciprocal conversion"));
    if recip != has_recip {
        return Err(format!(
            "reciprocal hint {} but the dimensionalities {} reciprocal",
            if has_recip { "given" } else { "missing" },
            if recip { "are" } else { "are not" }
        ));
    }
    if recip {
        return Ok(());
    }
    let mut named = 0;
    for s in sugg {
        for (side, me, other) in [("left", left, right), ("right", right, left)] {
            for (word, sg) in [("multiply", 1), ("divide", -1)] {
                let pre = format!("{} {} side by ", word, side);
                if let Some(desc) = s.strip_prefix(&pre) {
                    let x = parse_desc(dump, desc).ok_or_else(|| format!("suggestion `{}` names no resolvable quantity", s))?;
                    if &dims_mul(me, &x, sg) != other {
                        return Err(format!(
                            "suggestion `{}` does not make the sides conformable ({} vs {})",
                            s,
                            dims_str(me),
                            dims_str(other)
                        ));
                    }
                    named += 1;
                }
            }
        }
    }
    if named == 0 {
        return Err(format!("no suggestion names the missing factor: {:?}", sugg));
    }
    Ok(())
}

fn conv_raw(r: &Result<QueryReply, QueryError>) -> Result<rink_core::types::Number, String> {
    match r {
        Ok(QueryReply::Conversion(c)) => c.value.raw_value.clone().ok_or_else(|| "no raw value".to_string()),
        Ok(o) => Err(format!("reply kind {} instead of Conversion", reply_kind(o))),
        Err(e) => Err(format!("error: {}", e)),
    }
}

impl Space for C03 {
    fn meta(&self) -> Meta {
        Meta {
            id: "C03",
            level: "exploration",
            rule: "(a) every ordered pair (u,t) of registry units/base units with equal dimensionality: `1 u -> t` must be a Conversion with raw*value(t)==value(u) exactly, and `x t -> u` must give 1; (b) every unit x one representative of every other dimensionality: Conformance error whose suggestions carry the reciprocal hint iff the product is dimensionless and otherwise name a factor that (parsed back through the quantity table) makes the sides conformable; (c) prefix x plural spellings of a unit core as targets, judged by an independent name resolver; (d) compound sources x 16 compound target shapes (constants, 1|3, ^2, ^-1, ^1, products, quotients, kilo-prefix, inline `foo = 3 t`, sign, zero-valued targets `0 t`, `(t - t)`: Conformance error when not conformable, some error when conformable; constants 1e-400 / 1e400, far outside the f64 range, in sources and targets; signed two-digit constants `-12 t`, `+12 t`, `-12*t`, `-05 t` where a time offset could also start) over a 12-unit core x rational values. (e) `1 t^p -> (prefix t)^p` for 12 units x every prefix x p in {2, 14, -14, 30} (values down to 1e-720). Non-trivial = judged (not skipped); distinct by query text; (f) powers of three base units at the ends of i32/u32 - 11 spellings of u^(2^31-1), u^(2^31), u^(2^31+1), their negatives and u^(2^32), written directly and reached in two steps - as source and as target of `1 u^a -> u^b`: a number (1) only if a == b, a conformance error only if a != b, any other refusal accepted".into(),
            assumptions: vec![
                "unit values come from the registry dump (C08 validates it)".into(),
                "the single float-valued unit (semitone) is compared to 1e-12 relative".into(),
            ],
            exhaustive: true,
            extra: json!({"families": self.fams.summary(), "conformable_pairs": self.pairs.len()}),
        }
    }
    fn len(&self) -> u64 {
        self.fams.total()
    }
    fn describe(&self, idx: u64) -> String {
        match self.plan(idx) {
            Plan::Exact { q, .. } | Plan::Refuse { q, .. } | Plan::AnyErr { q } | Plan::OneOf { q, .. } | Plan::Edge { q, .. } => q,
            Plan::Skip(w) => format!("(skipped: {})", w),
        }
    }
    fn sample_indices(&self) -> Vec<u64> {
        self.fams.starts()
    }
    fn chunk(&self) -> u64 {
        4000
    }
    fn reset(&mut self) {
        self.ctx.clear();
    }
    fn run(&mut self, idx: u64) -> CaseOut {
        let plan = self.plan(idx);
        let dump = &self.dump;
        let ctx = self.ctx.get(fresh_ctx);
        match plan {
            Plan::Skip(w) => CaseOut::ok(format!("skipped: {}", w)),
            Plan::Exact { q, want, fwant, back, tdims } => {
                let mut out = CaseOut::ok("converted").key(hash64(&q));
                let reply = eval_q(ctx, &q);
                // x is reported *of something*: the units the reply names, with their powers, must have
                // the target's dimensionality (a unit that cancels out of the target is not part of it)
                if let (Some(td), Ok(QueryReply::Conversion(c))) = (&tdims, &reply) {
                    if let Some(named) = &c.value.raw_unit {
                        let mut nd = Dims::new();
                        let mut known = true;
                        for (name, pow) in named.iter() {
                            let readings = dump.resolve(&name.to_string());
                            match readings.first() {
                                Some(r) => nd = dims_mul(&nd, &dims_pow(&r.dims, *pow), 1),
                                None => known = false,
                            }
                        }
                        if known && &nd != td {
                            out = out.viol(
                                "the target named in the reply is not the target asked for",
                                format!("`{}` names {} in its reply, which is {} - the target is {}", q, named.iter().map(|(k, p)| format!("{}^{}", k, p)).collect::<Vec<_>>().join(" "), dims_str(&nd), dims_str(td)),
                            );
                        }
                    }
                }
                match conv_raw(&reply) {
                    Ok(raw) => {
                        if !raw.unit.is_empty() {
                            out = out.viol("conversion result carries a unit", format!("`{}` -> {:?}", q, dims_of(&raw)));
                        }
                        match (&want, numeric_to_rat(&raw.value)) {
                            (Some(w), Some(g)) => {
                                if *w != g {
                                    out = out.viol("conversion is not exact", format!("`{}` returned {} but v/t = {}", q, g, w));
                                }
                            }
                            (Some(w), None) => {
                                out = out.viol("float result for exact units", format!("`{}` returned a float; v/t = {}", q, w));
                            }
                            (None, _) => {
                                out.outcome = "converted (float unit)".into();
                                let g = raw.value.to_f64();
                                if !(g == fwant || (g - fwant).abs() <= 1e-12 * fwant.abs()) {
                                    out = out.viol("float conversion off", format!("`{}` returned {} expected about {}", q, g, fwant));
                                }
                            }
                        }
                    }
                    Err(e) => {
                        out.outcome = "refused although conformable".into();
                        out = out.viol("conformable conversion refused", format!("`{}`: {}", q, e));
                    }
                }
                if let Some(b) = back {
                    match conv_raw(&eval_q(ctx, &b)) {
                        Ok(raw) => {
                            if numeric_to_rat(&raw.value) != Some(Rat::one()) {
                                out = out.viol("round trip does not return v", format!("`{}` returned {:?}, expected 1", b, raw.value.to_rational()));
                            }
                        }
                        Err(e) => out = out.viol("round trip refused", format!("`{}`: {}", b, e)),
                    }
                }
                out
            }
            Plan::OneOf { q, wants } => {
                let mut out = CaseOut::ok("converted (prefixed/plural target)").key(hash64(&q));
                match conv_raw(&eval_q(ctx, &q)) {
                    Ok(raw) => match numeric_to_rat(&raw.value) {
                        Some(g) if wants.contains(&g) => {}
                        g => {
                            out = out.viol(
                                "conversion to prefixed/plural target is not exact",
                                format!("`{}` returned {:?}; valid readings give {:?}", q, g.map(|x| x.to_string()), wants.iter().map(|w| w.to_string()).collect::<Vec<_>>()),
                            )
                        }
                    },
                    Err(e) => out = out.viol("conformable conversion refused", format!("`{}`: {}", q, e)),
                }
                out
            }
            Plan::Edge { q, same } => {
                let mut out = CaseOut::ok("edge power: refused as too large").key(hash64(&q));
                match eval_q(ctx, &q) {
                    Err(QueryError::Conformance(_)) => {
                        out.outcome = "edge power: conformance error".into();
                        if same {
                            out = out.viol("conformable conversion refused", format!("`{}`: both sides are the same power of the same base unit, yet a conformance error", q));
                        }
                    }
                    Err(_) => {}
                    Ok(r) => {
                        out.outcome = "edge power: converted".into();
                        if !same {
                            out = out.viol("conversion accepted across a dimension mismatch", format!("`{}` (different powers) returned {}", q, r));
                        } else {
                            match conv_raw(&Ok(r)).ok().and_then(|raw| numeric_to_rat(&raw.value)) {
                                Some(v) if v == rat(1, 1) => {}
                                other => out = out.viol("conversion between equal units is not 1", format!("`{}` returned {:?}", q, other.map(|x| x.to_string()))),
                            }
                        }
                    }
                }
                out
            }
            Plan::AnyErr { q } => {
                let r = eval_q(ctx, &q);
                match r {
                    Err(_) => CaseOut::ok("unresolvable target -> error").key(hash64(&q)),
                    Ok(QueryReply::Conversion(_)) => CaseOut::ok("unresolvable target -> number")
                        .key(hash64(&q))
                        .viol("number for a target that denotes no unit", format!("`{}`", q)),
                    Ok(_) => CaseOut::ok("unresolvable target -> other reply (substance/formula)"),
                }
            }
            Plan::Refuse { q, left, right } => {
                let mut out = CaseOut::ok("refused with Conformance").key(hash64(&q));
                match eval_q(ctx, &q) {
                    Err(QueryError::Conformance(c)) => {
                        if let Err(e) = check_suggestions(dump, &left, &right, &c.suggestions) {
                            out = out.viol("conformance suggestions wrong", format!("`{}`: {}", q, e));
                        }
                    }
                    Err(e) => {
                        out.outcome = "refused with another error".into();
                        out = out.viol(
                            "non-conformable conversion refused without a conformance error",
                            format!("`{}`: {} ({})", q, e, err_kind(&e)),
                        );
                    }
                    Ok(r) => {
                        out.outcome = "accepted across a mismatch".into();
                        out = out.viol(
                            "conversion accepted across a dimension mismatch",
                            format!("`{}` ({} vs {}) returned {}", q, dims_str(&left), dims_str(&right), r),
                        );
                    }
                }
                out
            }
        }
    }
}

#[allow(dead_code)]
fn _unused(r: &Rat) -> Option<f64> {
    r.to_f64()
}
