//! C04 — totality: no input can crash, abort or hang evaluation.

use crate::common::*;
use engine::util::{hash64, Fams};
use engine::{Abnormal, CaseOut, Meta, Space, Violation};
use rink_core::output::fmt::{Span, TokenFmt};
use rink_core::output::{QueryError, QueryReply};
use rink_core::types::{Number, Numeric};
use rink_core::Context;
use serde_json::json;
use std::time::Duration;

const TOKENS: [&str; 56] = [
    "1", "0", "2", ".5", "1e", "0x", "1.", "a", "m", "kg", "s", "water", "egg", "H2O", "H99999999999", "'q'", "\"x y\"", "\"\"", "(", ")", "+", "-",
    "*", "/", "|", "^", "**", "=", ";", ",", ":", "%", "->", "to", "per", "mod", "and", "xor", "<<", ">>", "°C", "degF", "#2020-01-01#", "#",
    "\\u", "\\u41", "\\", "ans", "now", "of", "sqrt", "log", "digits", "base", "hex", "frac",
];
const TOKENS2: [&str; 12] = ["factorize", "units", "for", "search", "sci", "hypot", "int", "in", "or", "3", "ft", "#02:30 US/Pacific#"];

const MUT_CHARS_QUICK: [&str; 8] = ["\\", "#", "'", "\"", "°", "(", "^", "\u{0}"];
const MUT_CHARS: [&str; 44] = [
    "\\", "#", "'", "\"", "°", "℃", "\u{2212}", "→", "\u{2215}", "\u{2009}", "\u{0}", "é", "ø", "(", ")", "^", "|", "/", "*", "+", "-", "=", ";", ",",
    ":", "%", "<", ">", "0", "9", "e", "E", ".", "_", "x", " ", "\t", "[", "{", "!", "?", "$", "@", "µ",
];

const LADDER_UNITS: [(&str, &str, &str); 38] = [
    ("", "(", ""),
    ("", ")", ""),
    ("", "(", "1"),
    ("", "-", "1"),
    ("", "+", "1"),
    ("", "sqrt ", "4"),
    ("", "sqrt(", "4"),
    ("", "1^", "1"),
    ("", "1|", "1"),
    ("", "a of ", "b"),
    ("", "2 ", ""),
    ("", "m ", ""),
    ("", "1+", "1"),
    ("", "1/", "1"),
    ("1", " °C", ""),
    ("", "#", ""),
    ("", "\"", ""),
    ("", "'", ""),
    ("", "\\", ""),
    ("1e", "9", ""),
    ("", "9", ""),
    ("0.", "0", "1"),
    ("0x", "f", ""),
    ("#2020-01-01 00:00:00.", "1", "#"),
    ("H", "9", ""),
    ("1 ", "-> ", "m"),
    ("", "a = ", "1"),
    ("1", ", ", ""),
    ("1", "; m", ""),
    ("", "units for ", "m"),
    ("", "factorize ", "m"),
    ("", "1 -", " 1"),
    ("", "1 mod ", "3"),
    ("", "[", ""),
    ("", "%", ""),
    ("1", "%", ""),
    ("#", "2020-", "#"),
    ("1 << ", "1", ""),
];
const LADDER_K: [usize; 20] = [1, 2, 3, 4, 5, 6, 7, 8, 9, 10, 11, 12, 16, 32, 64, 100, 128, 200, 250, 499];

const EXTRA_CHARS: [&str; 65] = [
    "°", "℃", "℉", "\u{2212}", "→", "\u{2215}", "\u{2009}", "é", "ø", "µ", "Ω", "²", "½", "€", "£", "¥", "中", "😀", "\u{0}", "\t", "\n", "\r", "\u{301}",
    "\u{200f}", "\u{feff}", "\u{a0}", "¢", "‰", "∞", "π", "×", "÷", "≠", "≤", "√", "∑", "ß", "Ж", "ل", "ह", "\u{1}", "\u{7f}", "\u{80}", "\u{ffff}", "\u{10ffff}",
    "’", "“", "”", "‘", "…", "–", "—", "·", "•", "¹", "³", "¼", "¾", "ª", "º", "¿", "¡", "§", "¶", "©",
];

const KNOWN_SLOW: [&str; 39] = [
    "factorize m^60", "factorize m^100",
    "5 m -> m/(1 - 2^0.5)", "6 m -> 2^0.5 m", "6 -> 4^0.5", "3 m -> m/(2 - 2^1.5)", "((m kg s)^2147483647)^2147483647", "((m kg s)^65536)^32768", "(m kg s)^2147483647",
    "factorize J^2", "factorize kg^3 m^5 / s^7", "factorize W^2 / m", "factorize N J",
    // inputs behind defects found (and fixed) earlier: kept as a permanent family
    "\\u", "\\uzz", "\\u123456789", "1 mod 0", "0^-1", "1 << -1", "1 >> -1", "meter^0 + 1", "H99999999999", "\"\"",
    "#2020-01-01 00:00:00.1234567890#", "#2020-01-01 00:00 +9999999:00#", "#02:30 US/Pacific#", "now -> +24:00", "now -> -99:99",
    ".12^45e3 -> digits 3", "log10(-1) * 12", "1 -> 1 << 2", "10 m -> m << 1", "1 -> 1 >> 2",
    "((m^2147483647)^2147483647)^2147483647", "((1|m)^2147483647)^-2147483647 m", "sqrt(m^2147483647)", "1e2147483647", "1e-2147483648", "units for (m^2147483647)^2147483647",
];

/// Exponent shapes: base ^ (exponent) for every pair.
const POW_BASES: [&str; 8] = ["2", "m", "0", "-8", "1|2", "ans", "water", "now"];
const POW_EXPS: [&str; 24] = [
    "1|2", "1|3", "2|3", "-1.5", "0.5", "1|4294967296", "1|4294967295", "1|2147483648", "1|2147483647", "-1|4294967296", "1|1e30", "1e30", "-1e30",
    "1|0.5", "log10(-1)", "1|0", "0", "-0", "2147483647", "-2147483648", "4294967296", "1|65536", "65536", "m",
];
/// Float specials in every context.
const SPECIALS: [&str; 8] = ["log10(-1)", "ln(0)", "exp(1000)", "-exp(1000)", "sqrt(-1)", "asin(2)", "0.1^0.5", "ln(0) - ln(0)"];
const SPECIAL_CTX: [&str; 34] = [
    "{}", "{} s", "now + {} s", "now - {} s", "#2020-01-01# + {} s", "{} -> digits 3", "{} -> frac", "{} -> sci", "{} -> hex", "{} s -> hour;min", "{} m -> ft;inch",
    "2^{}", "{}^2", "{} mod 3", "3 mod {}", "1 << {}", "{} << 1", "{} and 1", "{} °C", "300 K -> {} °C", "{} water", "mass of ({} water)", "hypot({}, 1)",
    "{} m -> ft", "1 m -> {} ft", "{} + {}",
    // as the exponent of something that carries a unit (the unit's power has to become something)
    "m^{}", "(3 kg)^{}", "s^-{}", "5 m -> m^{}", "m^(1/{})", "(2 m)^({} - {})", "water^{}", "m^{} s^{}",
];
/// Conversion modifiers with boundary counts.
const DIGIT_COUNTS: [&str; 12] = ["0", "1", "2147483647", "2147483648", "4294967295", "4294967296", "9223372036854775807", "9223372036854775808", "18446744073709551615", "18446744073709551616", "1e3", "-1"];
const DIGIT_SUBJECTS: [&str; 5] = ["1|3", "1|7 m", "1e30", "0", "2^0.5"];
const DIGIT_TAILS: [&str; 4] = ["", " base 2", " hex", " ft"];
/// Unit-list shapes whose members can be `ans` (preset from the per-case pool, which includes zero values).
const LIST_SHAPES: [&str; 14] = [
    "10 s -> ans, second", "10 s -> second, ans", "10 s -> ans, ans", "10 m -> ans; ft", "ans -> ans; s", "ans -> s; ms", "0 s -> hour, min",
    "10 s -> zerocelsius, K", "3 m -> percent; m", "10 -> percent; ppm", "10 s -> s; s; s; s; s; s; s; s", "3 m -> ft, ans, inch", "1 -> ans, 1", "10 K -> zerocelsius; K",
];

/// Date literals with boundary years in every position the patterns allow a year, with and without an era.
const DATE_YEARS: [&str; 14] = ["0", "1", "0001", "9999", "10000", "262143", "262144", "2147483647", "2147483648", "-1", "-262144", "-2147483647", "-2147483648", "9223372036854775807"];
const DATE_FORMS: [&str; 8] = ["#{y} jan 1{e}#", "#jan 1, {y}{e}#", "#{y}-01-01{e}#", "#{y}-01-01 12:00:00{e}#", "#jan 1 {y} 11:30 pm{e}#", "#{y}-W01-1{e}#", "#{y}-001{e}#", "#1 jan {y}{e}#"];
const DATE_ERAS: [&str; 5] = ["", " bc", " ad", " bce", " ce"];
const DATE_TAILS: [&str; 3] = ["", " + 1 day", " -> UTC"];

/// Unit powers composed from small exponents: the product reaches +-2^31, +-2^32, +-2^63 although
/// every single exponent is accepted.
const TOWER_EXPS: [&str; 16] = ["1", "-1", "2", "32767", "32768", "-32768", "65535", "65536", "-65536", "65537", "46340", "46341", "-46341", "2147483647", "-2147483647", "3037000500"];
const TOWER_FORMS: [&str; 7] = ["({u}^{a})^{b}", "1/({u}^{a})^{b}", "1 + ({u}^{a})^{b}", "({u}^{a})^{b} -> m", "(({u}^{a})^{b})^2", "({u}^{a})^{b} ({u}^{a})^{b}", "({u}^{a})^{b} / ({u}^{a})^{b}"];
const TOWER_UNITS: [&str; 4] = ["m", "kg", "s", "(m kg s)"];

/// Conversion targets that look like time-zone names in some spelling: every case variant the
/// parser might accept and the evaluator might not.
/// Powers of magnitude 2^61..2^63, then summed, negated, multiplied and shown.  The last form keeps
/// the dimensionality small (s x Hz cancels) while the *named* powers of the conversion target add up.
const SUM_POWERS: [&str; 9] = [
    "(({u}^2147483647)^1073741824)",
    "(({u}^-2147483647)^1073741824)",
    "(({u}^2147483647)^1073741823)",
    "(({u}^2147483647)^2147483647)",
    "(({u}^-2147483647)^2147483647)",
    "((({u}^-2097152)^2097152)^524288)",
    "((({u}^-2097152)^2097152)^1048576)",
    "((({u}^-2097152)^2097152)^2097152)",
    "((({u}^2097152)^2097152)^2097151)",
];
const SUM_FORMS: [&str; 20] = [
    "{x}",
    "1/{x}",
    "{x}*{x}",
    "{x}*{x}*{x}",
    "{x}*{x}*{x}*{x}",
    "{x} {x} {x} {x}",
    "{x}/(1/{x})",
    "1/{x}/{x}/{x}/{x}",
    "{x}^2",
    "{x}^4",
    "{x}^-4",
    "-{x}",
    "{x} + {x}",
    "{x}/{x}",
    "{x} -> m",
    "{x}*{x} -> {x}",
    "{x} -> 1/{x}",
    "1 -> {x}*{x}*{x}*{x}*{x}",
    "1 -> {x} * {h} * {x} * {h} * {x} * {h} * {x} * {h} * {x} * {h}",
    "1 -> {x} / (1/{h}) / (1/{x}) / (1/{h}) / (1/{x}) / (1/{h}) / (1/{x}) / (1/{h}) / (1/{x}) / (1/{h})",
];
const SUM_UNITS: [&str; 3] = ["m", "s", "kg"];
/// Durations at the ends of the ranges behind date arithmetic: i64 milliseconds (chrono's
/// TimeDelta is one narrower on the negative side), i64 nanoseconds, i64 seconds, i32 days.
const EDGE_DURATIONS: [&str; 22] = [
    "9223372036854775.807 s", "9223372036854775.808 s", "9223372036854775.8075 s", "9223372036854775.809 s", "9223372036854775807 ms", "9223372036854775808 ms",
    "9223372036854775806.5 ms", "9223372036.854775807 s", "9223372036.854775808 s", "9223372036854775807 ns", "9223372036854775808 ns", "9223372036854775807 s",
    "9223372036854775808 s", "2147483647 day", "2147483648 day", "106751991167 day", "106751991168 day", "8210298412799 s", "8210298412800 s", "0.0000000005 s", "1e-30 s", "1e30 s",
];
const EDGE_DUR_FORMS: [&str; 8] = ["now + {d}", "now - {d}", "now + -{d}", "now - -{d}", "#2020-01-01# + {d}", "#2020-01-01# - {d}", "{d} + now", "(now + {d}) - now"];
const ZONE_WORDS: [&str; 30] = [
    "utc", "UTC", "Utc", "gmt", "GMT", "est", "EST", "mst", "hst", "cet", "eet", "met", "wet", "uct", "prc", "roc", "rok", "nz", "NZ", "gb", "GB", "us/pacific", "US/Pacific", "US/PACIFIC",
    "europe/london", "Europe/London", "z", "Z", "local", "\"utc\"",
];
const ZONE_SOURCES: [&str; 4] = ["now", "#2020-01-01 12:00#", "5 m", "3"];
const ZONE_ARROWS: [&str; 3] = ["->", "to", "in"];

const SEED_SRC: &str = include_str!("/repo/core/tests/query.rs");
const MANUAL: &str = include_str!("/repo/docs/rink.7.adoc");

fn parse_rust_string(src: &[char], mut i: usize) -> Option<(String, usize)> {
    // src[i] == '"'
    i += 1;
    let mut out = String::new();
    while i < src.len() {
        match src[i] {
            '"' => return Some((out, i + 1)),
            '\\' => {
                i += 1;
                match src.get(i)? {
                    'n' => out.push('\n'),
                    't' => out.push('\t'),
                    '"' => out.push('"'),
                    '\\' => out.push('\\'),
                    '\'' => out.push('\''),
                    'u' => {
                        // \u{XXXX}
                        let mut j = i + 2;
                        let mut hex = String::new();
                        while src.get(j).map(|c| *c != '}').unwrap_or(false) {
                            hex.push(src[j]);
                            j += 1;
                        }
                        if let Some(c) = u32::from_str_radix(&hex, 16).ok().and_then(char::from_u32) {
                            out.push(c);
                        }
                        i = j;
                    }
                    '\n' => {
                        while src.get(i + 1).map(|c| c.is_whitespace()).unwrap_or(false) {
                            i += 1;
                        }
                    }
                    c => out.push(*c),
                }
                i += 1;
            }
            c => {
                out.push(c);
                i += 1;
            }
        }
    }
    None
}

fn seeds() -> Vec<String> {
    let mut out: Vec<String> = vec![];
    let chars: Vec<char> = SEED_SRC.chars().collect();
    let text: String = SEED_SRC.to_string();
    for pat in ["test(", "test_starts_with(", "one_line(&mut ctx,", "eval(&mut ctx,"] {
        let mut from = 0;
        while let Some(p) = text[from..].find(pat) {
            let at = from + p + pat.len();
            from = at;
            // char index of byte index
            let ci = text[..at].chars().count();
            let mut j = ci;
            while j < chars.len() && chars[j].is_whitespace() {
                j += 1;
            }
            if chars.get(j) == Some(&'"') {
                if let Some((s, _)) = parse_rust_string(&chars, j) {
                    if !s.is_empty() && s.chars().count() <= 120 {
                        out.push(s);
                    }
                }
            }
        }
    }
    for line in MANUAL.lines() {
        if let Some(q) = line.strip_prefix("\t> ") {
            out.push(q.to_string());
        }
    }
    out.sort();
    out.dedup();
    out
}

/// Powers of powers of *base units of value 1* (`(m^-65536)^32768`, `1 + (kg^46341)^46341 -> s`):
/// whatever the exponents, the exact result is 1 x unit^k - nothing large - so these are cheap.
/// Recognised textually: with every `^<integer>` removed, only the names m, kg, s, the literal 1
/// and `( ) / + - >` remain.
pub fn unit_tower(text: &str) -> bool {
    let chars: Vec<char> = text.chars().collect();
    let mut rest = String::new();
    let mut i = 0;
    let mut pows = 0;
    while i < chars.len() {
        if chars[i] == '^' {
            let mut j = i + 1;
            if j < chars.len() && (chars[j] == '-' || chars[j] == '+') {
                j += 1;
            }
            let d0 = j;
            while j < chars.len() && chars[j].is_ascii_digit() {
                j += 1;
            }
            if j == d0 {
                return false;
            }
            pows += 1;
            i = j;
            continue;
        }
        rest.push(chars[i]);
        i += 1;
    }
    pows >= 1 && rest.split(|c: char| " ()/+->*".contains(c)).all(|w| matches!(w, "" | "m" | "kg" | "s" | "1" | "Hz"))
}

/// Inputs whose exact result may itself be astronomically large: they may time out or exhaust
/// memory (what the sandbox is for) but must not panic.  Static rule on the text:
///  * a numeric literal with an exponent part of >= 4 digits (separators ignored), or
///  * a power/shift operator (`^`, `**`, `<<`, `>>`) whose right-hand side is anything but a
///    plain literal of at most two digits (no exponent part, no separators), or
///  * two or more power/shift operators, or such an operator together with `ans`.
pub fn expensive(text: &str) -> bool {
    if unit_tower(text) {
        return false;
    }
    let chars: Vec<char> = text.chars().collect();
    let is_sep = |c: char| c == '_' || c == '\u{2009}';
    // exponent literals
    for (i, c) in chars.iter().enumerate() {
        if (*c == 'e' || *c == 'E') && i > 0 && (chars[i - 1].is_ascii_digit() || chars[i - 1] == '.' || is_sep(chars[i - 1])) {
            let mut j = i + 1;
            while j < chars.len() && (chars[j] == 'e' || chars[j] == 'E' || chars[j] == '-' || chars[j] == '+') {
                j += 1;
            }
            let mut n = 0;
            while j < chars.len() && (chars[j].is_ascii_digit() || is_sep(chars[j])) {
                if chars[j].is_ascii_digit() {
                    n += 1;
                }
                j += 1;
            }
            if n >= 4 {
                return true;
            }
        }
    }
    // power / shift operators
    let mut ops = 0;
    let mut i = 0;
    while i < chars.len() {
        let two = |a: char, b: char| chars[i] == a && chars.get(i + 1) == Some(&b);
        let oplen = if chars[i] == '^' {
            1
        } else if two('*', '*') || two('<', '<') || two('>', '>') {
            2
        } else {
            0
        };
        if oplen == 0 {
            i += 1;
            continue;
        }
        ops += 1;
        let mut j = i + oplen;
        while j < chars.len() && (chars[j].is_whitespace() || chars[j] == '-' || chars[j] == '+' || chars[j] == '(' || chars[j] == '\u{2212}') {
            j += 1;
        }
        let mut digits = 0;
        while j < chars.len() && chars[j].is_ascii_digit() {
            digits += 1;
            j += 1;
        }
        let next = chars.get(j).copied().unwrap_or(' ');
        let small = digits >= 1 && digits <= 2 && !(next == 'e' || next == 'E' || next == '.' || next == 'x' || next == 'b' || next == 'o' || is_sep(next) || next.is_alphanumeric());
        if !small {
            return true;
        }
        i += oplen;
    }
    ops >= 2 || (ops >= 1 && (text.contains("ans") || text.contains("ANS") || text.contains('_')))
}

pub struct C04 {
    fams: Fams,
    seeds: Vec<String>,
    mut_chars: Vec<&'static str>,
    alphabet: Vec<String>,
    gen: crate::props::c11::GenPub,
    gen_t: crate::props::c11::GenPub,
    soup_lens: Vec<u64>,
    cli_batches: u64,
    cli_batch: u64,
    rink_bin: Option<String>,
    ctx: Lazy<Context>,
    count: u64,
}

impl C04 {
    pub fn new(tier: &str) -> C04 {
        let thorough = tier == "thorough";
        let seeds = seeds();
        let mut_chars: Vec<&'static str> = if thorough { MUT_CHARS.to_vec() } else { MUT_CHARS_QUICK.to_vec() };
        let mut alphabet: Vec<String> = (32u8..127).map(|b| (b as char).to_string()).collect();
        alphabet.extend(EXTRA_CHARS.iter().map(|s| s.to_string()));
        let gen = crate::props::c11::GenPub::new(vec!["m", "2", "water", "now", "'q'", "0"], 2);
        let gen_t = crate::props::c11::GenPub::new(vec!["m", "2", "ft", "0"], 2);
        let soup_lens: Vec<u64> = if thorough { vec![1, 2, 3, 4] } else { vec![1, 2, 3] };
        let mut fams = Fams::default();
        let nt = (TOKENS.len() + TOKENS2.len()) as u64;
        for l in &soup_lens {
            // longer soups use the first alphabet only
            let n = if *l >= 4 { TOKENS.len() as u64 } else { nt };
            fams.add(&format!("token soup of length {}", l), vec![n.pow(*l as u32)]);
        }
        let maxlen = seeds.iter().map(|s| s.chars().count()).max().unwrap_or(1) as u64;
        fams.add("single-deviation mutations of seed queries: seed x position x edit", vec![seeds.len() as u64, maxlen + 1, 3 + 2 * mut_chars.len() as u64]);
        fams.add("depth/length ladders", vec![LADDER_UNITS.len() as u64, LADDER_K.len() as u64]);
        let a = alphabet.len() as u64;
        fams.add("all 1-character strings", vec![a]);
        fams.add("all 2-character strings", vec![a, a]);
        if thorough {
            fams.add("all 3-character strings", vec![a, a, a]);
        }
        fams.add("grammar-directed trees with unit/substance/date/zero leaves", vec![gen.total()]);
        fams.add("inputs known to be slow", vec![KNOWN_SLOW.len() as u64]);
        fams.add("exponent shapes", vec![POW_BASES.len() as u64, POW_EXPS.len() as u64, 2]);
        fams.add("float specials in context", vec![SPECIALS.len() as u64, SPECIAL_CTX.len() as u64]);
        fams.add("digit-count modifiers", vec![DIGIT_SUBJECTS.len() as u64, DIGIT_COUNTS.len() as u64, DIGIT_TAILS.len() as u64]);
        fams.add("unit-list shapes with ans", vec![LIST_SHAPES.len() as u64]);
        fams.add("unit powers composed from small exponents", vec![TOWER_UNITS.len() as u64, TOWER_EXPS.len() as u64, TOWER_EXPS.len() as u64, TOWER_FORMS.len() as u64]);
        fams.add("sums, negations and products of unit powers near the exponent range", vec![SUM_UNITS.len() as u64, SUM_POWERS.len() as u64, SUM_FORMS.len() as u64]);
        fams.add("a date plus or minus a duration at the ends of the time types", vec![EDGE_DURATIONS.len() as u64, EDGE_DUR_FORMS.len() as u64]);
        fams.add("conversion to zone-like words in every case", vec![ZONE_WORDS.len() as u64, ZONE_SOURCES.len() as u64, ZONE_ARROWS.len() as u64]);
        fams.add("date literals with boundary years", vec![DATE_YEARS.len() as u64, DATE_FORMS.len() as u64, DATE_ERAS.len() as u64, DATE_TAILS.len() as u64]);
        fams.add("numeral modes through the query path", vec![6, 5, 7, 4]);
        fams.add("conversion targets: `3 m -> T` for every small tree T", vec![gen_t.total()]);
        fams.add("conversion targets of a bare number: `1 -> T` for every small tree T", vec![gen_t.total()]);
        let rink_bin = std::env::var("RINK_BIN").ok().filter(|p| std::path::Path::new(p).exists());
        // CLI pass over the first families (soups up to length 2-3, ladders, 1/2-char strings)
        let cli_batch = 400u64;
        let cli_space: u64 = fams.fams.iter().take(if thorough { 3 } else { 2 }).map(|f| f.2).sum::<u64>();
        let cli_batches = if rink_bin.is_some() { (cli_space + cli_batch - 1) / cli_batch } else { 0 };
        fams.add("the same inputs through the real `rink -f -` in batches", vec![cli_batches]);
        C04 { fams, seeds, mut_chars, alphabet, gen, gen_t, soup_lens, cli_batches, cli_batch, rink_bin, ctx: Lazy::new(), count: 0 }
    }

    fn soup(&self, mut k: u64, len: u64) -> String {
        let nt = if len >= 4 { TOKENS.len() } else { TOKENS.len() + TOKENS2.len() } as u64;
        let mut parts = vec![];
        for _ in 0..len {
            let i = (k % nt) as usize;
            parts.push(if i < TOKENS.len() { TOKENS[i] } else { TOKENS2[i - TOKENS.len()] });
            k /= nt;
        }
        parts.reverse();
        parts.join(" ")
    }

    /// None = this index denotes no input (position beyond the seed's length)
    fn input(&self, idx: u64) -> Option<String> {
        let (f, d) = self.fams.locate(idx);
        let ns = self.soup_lens.len();
        if f < ns {
            return Some(self.soup(d[0], self.soup_lens[f]));
        }
        let name = self.fams.name(f);
        if name.starts_with("single-deviation") {
            let seed: Vec<char> = self.seeds[d[0] as usize].chars().collect();
            let pos = d[1] as usize;
            if pos > seed.len() {
                return None;
            }
            let e = d[2] as usize;
            let mut out: Vec<char> = seed.clone();
            match e {
                0 => {
                    if pos >= seed.len() {
                        return None;
                    }
                    out.remove(pos);
                }
                1 => {
                    if pos >= seed.len() {
                        return None;
                    }
                    out.insert(pos, seed[pos]);
                }
                2 => {
                    if pos + 1 >= seed.len() {
                        return None;
                    }
                    out.swap(pos, pos + 1);
                }
                _ => {
                    let m = self.mut_chars.len();
                    let (ins, ci) = if e - 3 < m { (true, e - 3) } else { (false, e - 3 - m) };
                    let c: Vec<char> = self.mut_chars[ci].chars().collect();
                    if ins {
                        for (k, ch) in c.iter().enumerate() {
                            out.insert(pos + k, *ch);
                        }
                    } else {
                        if pos >= seed.len() {
                            return None;
                        }
                        out.splice(pos..pos + 1, c);
                    }
                }
            }
            return Some(out.into_iter().collect());
        }
        if name.starts_with("depth/length") {
            let (pre, rep, post) = LADDER_UNITS[d[0] as usize];
            let k = LADDER_K[d[1] as usize];
            let mut s = String::from(pre);
            for _ in 0..k {
                s.push_str(rep);
            }
            s.push_str(post);
            if rep == "(" && post == "1" {
                for _ in 0..k {
                    s.push(')');
                }
            }
            if rep == "sqrt(" {
                for _ in 0..k {
                    s.push(')');
                }
            }
            let t: String = s.chars().take(500).collect();
            return Some(t);
        }
        if name.starts_with("all 1-") {
            return Some(self.alphabet[d[0] as usize].clone());
        }
        if name.starts_with("all 2-") {
            return Some(format!("{}{}", self.alphabet[d[0] as usize], self.alphabet[d[1] as usize]));
        }
        if name.starts_with("all 3-") {
            return Some(format!("{}{}{}", self.alphabet[d[0] as usize], self.alphabet[d[1] as usize], self.alphabet[d[2] as usize]));
        }
        if name.starts_with("grammar") {
            return Some(self.gen.text(d[0]));
        }
        if name.starts_with("conversion targets") {
            return Some(format!("{} -> {}", if name.contains("bare number") { "1" } else { "3 m" }, self.gen_t.text(d[0])));
        }
        if name.starts_with("inputs known") {
            return Some(KNOWN_SLOW[d[0] as usize].to_string());
        }
        if name.starts_with("exponent shapes") {
            let (b, e) = (POW_BASES[d[0] as usize], POW_EXPS[d[1] as usize]);
            return Some(if d[2] == 0 { format!("({})^({})", b, e) } else { format!("3 m -> ({})^({}) m", b, e) });
        }
        if name.starts_with("float specials") {
            return Some(SPECIAL_CTX[d[1] as usize].replace("{}", &format!("({})", SPECIALS[d[0] as usize])));
        }
        if name.starts_with("digit-count") {
            return Some(format!("{} -> digits {}{}", DIGIT_SUBJECTS[d[0] as usize], DIGIT_COUNTS[d[1] as usize], DIGIT_TAILS[d[2] as usize]));
        }
        if name.starts_with("numeral modes") {
            let p = [1, 2, 5, 7, 11, 53][d[0] as usize];
            let q = [3, 6, 7, 12, 48][d[1] as usize];
            let m = ["digits 0", "digits 1", "digits 3", "", "sci", "eng", "frac"][d[2] as usize];
            let b = [2, 11, 16, 36][d[3] as usize];
            return Some(format!("{}|{} -> {} base {}", p, q, m, b));
        }
        if name.starts_with("unit powers composed") {
            return Some(TOWER_FORMS[d[3] as usize].replace("{u}", TOWER_UNITS[d[0] as usize]).replace("{a}", TOWER_EXPS[d[1] as usize]).replace("{b}", TOWER_EXPS[d[2] as usize]));
        }
        if name.starts_with("sums, negations") {
            let x = SUM_POWERS[d[1] as usize].replace("{u}", SUM_UNITS[d[0] as usize]);
            // the counterpart whose dimensionality cancels x's under another name
            let h = SUM_POWERS[d[1] as usize].replace("{u}", "Hz");
            let x_s = SUM_POWERS[d[1] as usize].replace("{u}", "s");
            let f = SUM_FORMS[d[2] as usize];
            let x = if f.contains("{h}") { x_s } else { x };
            return Some(f.replace("{x}", &x).replace("{h}", &h));
        }
        if name.starts_with("a date plus or minus") {
            return Some(EDGE_DUR_FORMS[d[1] as usize].replace("{d}", EDGE_DURATIONS[d[0] as usize]));
        }
        if name.starts_with("conversion to zone-like") {
            return Some(format!("{} {} {}", ZONE_SOURCES[d[1] as usize], ZONE_ARROWS[d[2] as usize], ZONE_WORDS[d[0] as usize]));
        }
        if name.starts_with("date literals") {
            return Some(format!("{}{}", DATE_FORMS[d[1] as usize].replace("{y}", DATE_YEARS[d[0] as usize]).replace("{e}", DATE_ERAS[d[2] as usize]), DATE_TAILS[d[3] as usize]));
        }
        if name.starts_with("unit-list shapes") {
            return Some(LIST_SHAPES[d[0] as usize].to_string());
        }
        None
    }

    fn is_cli(&self, idx: u64) -> Option<u64> {
        let (f, d) = self.fams.locate(idx);
        if self.fams.name(f).starts_with("the same inputs") {
            Some(d[0])
        } else {
            None
        }
    }
}

/// Walks the span tree the way a frontend does.  List structure: every consumer that indents
/// (the CLI's `to_ansi_inner` computes `indent * 2 - 2`) relies on a `ListSep` never appearing
/// before a `ListBegin` of the same object or of an enclosing one; `bad` receives such separators.
fn walk_spans(spans: &[Span], depth: usize, mut indent: usize, out: &mut usize, bad: &mut usize) {
    use rink_core::output::fmt::FmtToken;
    if depth > 64 {
        return;
    }
    for s in spans {
        match s {
            Span::Content { text, token } => {
                match token {
                    FmtToken::ListBegin => indent += 1,
                    FmtToken::ListSep if indent == 0 => *bad += 1,
                    _ => {}
                }
                *out += text.len()
            }
            Span::Child(c) => walk_spans(&c.to_spans(), depth + 1, indent, out, bad),
        }
    }
}

fn render_all(r: &Result<QueryReply, QueryError>) -> usize {
    let (n, bad) = render_all2(r);
    if bad > 0 {
        panic!("span tree is malformed: {} list separator(s) outside of any list (a frontend that indents list items underflows on this reply)", bad);
    }
    n
}

fn render_all2(r: &Result<QueryReply, QueryError>) -> (usize, usize) {
    let mut n = 0;
    let mut bad = 0;
    match r {
        Ok(v) => {
            n += v.to_string().len();
            n += serde_json::to_value(v).map(|x| x.to_string().len()).unwrap_or(0);
        }
        Err(e) => {
            n += e.to_string().len();
            n += serde_json::to_value(e).map(|x| x.to_string().len()).unwrap_or(0);
        }
    }
    walk_spans(&r.to_spans(), 0, 0, &mut n, &mut bad);
    (n, bad)
}

fn ans_for(idx: u64) -> Option<Number> {
    match idx % 6 {
        0 => None,
        4 => Some(Number::new_unit(Numeric::from(0), rink_core::types::BaseUnit::new("s"))),
        5 => Some(Number::new(Numeric::Float(f64::NAN))),
        1 => Some(Number::new_unit(Numeric::from(3), rink_core::types::BaseUnit::new("m"))),
        2 => Some(Number::new(Numeric::from_frac(1, 3))),
        _ => Some(Number::new_unit(Numeric::from(5), rink_core::types::BaseUnit::new("s"))),
    }
}

fn canary(ctx: &mut Context) -> Result<(), String> {
    match rink_core::one_line(ctx, "1 + 1") {
        Ok(s) if s.starts_with('2') => Ok(()),
        other => Err(format!("{:?}", other)),
    }
}

fn run_cli(bin: &str, inputs: &[String], tag: &str) -> Result<(), String> {
    use std::io::Write;
    let vd = std::env::var("VERIF_DIR").unwrap_or_else(|_| "/verif".into());
    let dir = std::path::PathBuf::from(format!("{}/target/tmp/c04-{}-{}", vd, std::process::id(), tag));
    let _ = std::fs::remove_dir_all(&dir);
    std::fs::create_dir_all(dir.join("config/rink")).map_err(|e| e.to_string())?;
    std::fs::write(dir.join("config/rink/config.toml"), "[currency]\nenabled = false\n").map_err(|e| e.to_string())?;
    let mut script = String::new();
    for i in inputs {
        script.push_str(i);
        script.push('\n');
        script.push_str("424242 + 1\n");
    }
    let mut child = std::process::Command::new(bin)
        .arg("-f")
        .arg("-")
        .current_dir(&dir)
        .env("XDG_CONFIG_HOME", dir.join("config"))
        .env("XDG_CACHE_HOME", dir.join("cache"))
        .env("HOME", &dir)
        .env("NO_COLOR", "1")
        .env("RUST_BACKTRACE", "0")
        .stdin(std::process::Stdio::piped())
        .stdout(std::process::Stdio::piped())
        .stderr(std::process::Stdio::piped())
        .spawn()
        .map_err(|e| e.to_string())?;
    {
        let mut stdin = child.stdin.take().unwrap();
        let data = script.clone();
        std::thread::spawn(move || {
            let _ = stdin.write_all(data.as_bytes());
        });
    }
    let out = child.wait_with_output().map_err(|e| e.to_string())?;
    let _ = std::fs::remove_dir_all(&dir);
    let stdout = String::from_utf8_lossy(&out.stdout);
    let sentinels = stdout.matches("424243").count();
    if !out.status.success() || sentinels < inputs.len() {
        return Err(format!(
            "exit {:?}, {} of {} sentinel answers; stderr: {}",
            out.status.code(),
            sentinels,
            inputs.len(),
            engine::util::clip(&String::from_utf8_lossy(&out.stderr), 400)
        ));
    }
    Ok(())
}

impl Space for C04 {
    fn meta(&self) -> Meta {
        Meta {
            id: "C04",
            level: "exploration",
            rule: "four exhaustive families evaluated through rink_core::eval on a long-lived context (ans preset per case from a 6-value pool incl. a zero time and NaN), every reply rendered as Display, recursive span tree and serde_json: (1) all token sequences of length <= 3 (thorough 4) over a 68-token alphabet with one token per lexer/parser branch; (2) grammar-directed trees with unit/substance/date/zero leaves; (3) every single-character deviation (delete, duplicate, swap, insert/replace with each special character) at every position of every query string of core/tests/query.rs and the manual; (4) depth/length ladders up to 500 characters for 38 repeating units, all 1- and 2- (thorough 3-) character strings over a 160-character alphabet; (4a) unit powers composed from small exponents, `(u^a)^b` in 7 contexts for 16x16 exponent pairs whose products reach +-2^31, +-2^32, +-2^63 (cheap by construction: the exact result is 1 x unit^k, so the 5 s limit applies); (4d) 3 base units x 9 nested powers of magnitude 2^61..2^63 x 20 forms that add, negate, multiply and print them, incl. conversion targets whose named powers add up while the dimensionality cancels (s x Hz); (4e) 22 durations at the ends of i64 milliseconds / nanoseconds / seconds and of chrono's narrower ranges, added to and subtracted from `now` and a date literal in 8 forms; (4c) conversions to 30 zone-like words in every case (utc/UTC/Utc, gb/GB, us/pacific, ...) from 4 sources with all three arrows; (4b) date literals: 14 boundary years (0, 1, 9999, 10000, chrono's limits +-262144, +-2^31, 2^63-1) x 8 pattern forms x 5 eras x 3 continuations; (5) the same inputs through the real `rink -f -` binary in batches with a sentinel after each input. Oracle: Ok or Err within 5 s, a well-formed span tree (no list separator outside a list: the CLI's indentation arithmetic underflows otherwise), no panic/abort/stack overflow (8 MiB)/2 GiB; canary `1 + 1` after every failure and every 1000 cases. Inputs classified expensive by a static rule (exponent/shift/power towers, >= 4-digit exponent literals) may time out but not panic. Non-trivial = the input produced a reply or an error (not a skipped index); distinct by input text".into(),
            assumptions: vec![
                "8 MiB stack and 2 GiB address space stand for the resource envelope of a chat bot / CLI".into(),
                "`ans` before each case is a deterministic function of the case index so that every failure replays in isolation".into(),
            ],
            exhaustive: true,
            extra: json!({"families": self.fams.summary(), "seed_queries": self.seeds.len(), "tokens": TOKENS.len() + TOKENS2.len(), "cli_batches": self.cli_batches, "rink_binary": self.rink_bin}),
        }
    }
    fn len(&self) -> u64 {
        self.fams.total()
    }
    fn describe(&self, idx: u64) -> String {
        if let Some(b) = self.is_cli(idx) {
            return format!("CLI batch {} (inputs {}..{})", b, b * self.cli_batch, (b + 1) * self.cli_batch);
        }
        match self.input(idx) {
            Some(s) => s,
            None => "(no input at this index)".into(),
        }
    }
    fn sample_indices(&self) -> Vec<u64> {
        self.fams.starts()
    }
    fn chunk(&self) -> u64 {
        1000
    }
    fn abnormal_cap(&self) -> u64 {
        300
    }
    fn heavy(&self) -> Vec<(u64, u64)> {
        let mut out = vec![];
        let mut start = 0;
        for (name, _, size) in &self.fams.fams {
            if name.starts_with("inputs known") || name.starts_with("the same inputs") {
                out.push((start, start + size));
            }
            start += size;
        }
        out
    }
    fn time_limit(&self, idx: u64) -> Duration {
        if self.is_cli(idx).is_some() {
            return Duration::from_secs(240);
        }
        match self.input(idx) {
            Some(s) if expensive(&s) => Duration::from_secs(1),
            _ => Duration::from_secs(5),
        }
    }
    fn reset(&mut self) {
        self.ctx.clear();
    }
    fn abnormal(&self, idx: u64, kind: Abnormal, info: &str) -> Option<Violation> {
        let text = self.describe(idx);
        if kind != Abnormal::Panic && expensive(&text) {
            return None; // astronomically large results may take long or exhaust memory
        }
        Some(Violation {
            sig: format!("{}: {}", engine::kind_name(kind), engine::util::normalise_panic(info)),
            detail: format!("input {:?}: {}", text, info),
        })
    }
    fn run(&mut self, idx: u64) -> CaseOut {
        if let Some(b) = self.is_cli(idx) {
            let bin = self.rink_bin.clone().unwrap();
            let mut inputs = vec![];
            for i in b * self.cli_batch..(b + 1) * self.cli_batch {
                if i >= self.fams.total() {
                    break;
                }
                if let Some(s) = self.input(i) {
                    if !s.contains('\n') && !s.contains('\r') && !expensive(&s) && !KNOWN_SLOW.contains(&s.as_str()) && !s.contains("factorize") {
                        inputs.push(s);
                    }
                }
            }
            let mut out = CaseOut::ok("cli batch").count("cli_inputs", inputs.len() as u64);
            if let Err(e) = run_cli(&bin, &inputs, &idx.to_string()) {
                // bisect to one input
                let mut lo = 0;
                let mut hi = inputs.len();
                while hi - lo > 1 {
                    let mid = (lo + hi) / 2;
                    if run_cli(&bin, &inputs[lo..mid], &idx.to_string()).is_err() {
                        hi = mid;
                    } else {
                        lo = mid;
                    }
                }
                out = out.viol("the rink binary stops or crashes on an input", format!("input {:?}: {}", inputs.get(lo), e));
            }
            return out;
        }
        let text = match self.input(idx) {
            Some(t) => t,
            None => return CaseOut::ok("no input at this index"),
        };
        let ctx = self.ctx.get(|| {
            let mut c = fresh_ctx();
            c.save_previous_result = true;
            c
        });
        ctx.previous_result = ans_for(idx);
        let r = rink_core::eval(ctx, &text);
        let n = render_all(&r);
        let mut out = CaseOut::ok(match &r {
            Ok(v) => format!("Ok({})", reply_kind(v)),
            Err(e) => format!("Err({})", err_kind(e)),
        })
        .key(hash64(&text));
        let _ = n;
        self.count += 1;
        if self.count % 1000 == 0 {
            if let Err(e) = canary(ctx) {
                out = out.viol("context unusable after a query", format!("after {:?}: {}", text, e));
            }
        }
        out
    }
}
