//! C05 — printed numerals denote the computed value.

use crate::common::*;
use crate::numeral;
use engine::util::{hash64, Fams};
use engine::{CaseOut, Meta, Space};
use num_bigint::BigInt;
use num_integer::Integer;
use num_traits::{One, Zero};
use rink_core::output::{Digits, QueryReply};
use rink_core::types::{BigInt as RBigInt, BigRat, Numeric};
use rink_core::Context;
use serde_json::json;

const MODES: [Digits; 11] = [
    Digits::Default,
    Digits::FullInt,
    Digits::Digits(0),
    Digits::Digits(1),
    Digits::Digits(3),
    Digits::Digits(7),
    Digits::Digits(50),
    Digits::Digits(1000),
    Digits::Scientific,
    Digits::Engineering,
    Digits::Fraction,
];

pub struct C05 {
    fams: Fams,
    rats: Vec<Rat>,
    bases: Vec<u32>,
    kmax: u64,
    jmax: u64,
    qvals: Vec<Rat>,
    ctx: Lazy<Context>,
}

fn to_numeric(r: &Rat) -> Numeric {
    Numeric::Rational(BigRat::ratio(
        &RBigInt::from(r.numer().clone()),
        &RBigInt::from(r.denom().clone()),
    ))
}

fn mode_name(d: Digits) -> String {
    format!("{:?}", d)
}

impl C05 {
    pub fn new(tier: &str) -> C05 {
        let thorough = tier == "thorough";
        let n: i64 = if thorough { 60 } else { 24 };
        let mut rats = vec![rat(0, 1)];
        for q in 1..=n {
            for p in 1..=n {
                if p.gcd(&q) == 1 {
                    rats.push(rat(p, q));
                    rats.push(rat(-p, q));
                }
            }
        }
        // magnitudes straddling the 1e-9 / 1e9 notation switches
        for e in [-11i64, -10, -9, -8, 8, 9, 10, 11, 30, -30] {
            for m in [999i64, 1000, 1001] {
                let v = rat(m, 1000) * pow_rat(&rat(10, 1), e).unwrap();
                rats.push(v.clone());
                rats.push(-v);
            }
        }
        // long and huge recurring periods
        for d in [97i64, 3937, 9973, 65537, 1000003] {
            rats.push(rat(1, d));
            rats.push(rat(-355, d));
            rats.push(rat(1_000_000_007, d));
        }
        // long recurring periods x integer parts on both sides of every digit-count boundary
        // (the digit-count estimate is an upper bound that is off by one for part of each decade)
        for d in [17i64, 19, 23, 97, 3937] {
            for m in [7i64, 8, 9, 10, 63, 64, 99, 100, 511, 512, 999, 1000, 1023, 1024] {
                rats.push(rat(d * m + 1, d));
                rats.push(rat(-(d * m + 1), d));
            }
        }
        // more than a thousand fraction places before a recurring block of 16 / 18 / 22 digits starts
        {
            let ten = BigInt::from(10);
            let two = BigInt::from(2);
            rats.push(Rat::new(BigInt::one(), num_traits::pow(ten.clone(), 1000) * BigInt::from(17)));
            rats.push(Rat::new(BigInt::from(3), num_traits::pow(two.clone(), 1100) * BigInt::from(17)));
            rats.push(Rat::new(BigInt::one(), num_traits::pow(two, 1040) * BigInt::from(19)));
            rats.push(Rat::new(BigInt::from(5), num_traits::pow(BigInt::from(12), 1003) * BigInt::from(23)));
            rats.push(Rat::new(BigInt::from(-7), num_traits::pow(ten, 1200) * BigInt::from(13)));
        }
        // numerators beyond a thousand bits over denominators on both sides of every digit-count
        // boundary (a digit count of the quotient taken from the digit counts of its two parts is
        // off by one for part of each decade), in three bases' own powers
        for b in if thorough { vec![10u32, 12, 7] } else { vec![10u32] } {
            let bk = num_traits::pow(BigInt::from(b), 400);
            for q in if thorough { vec![7i64, 8, 9, 10, 63, 64, 65, 99, 100, 511, 512, 999] } else { vec![8i64, 10, 65, 999] } {
                rats.push(Rat::new(bk.clone() * BigInt::from(q) + BigInt::one(), BigInt::from(q)));
            }
            let bj = num_traits::pow(BigInt::from(b), 395);
            rats.push(Rat::new(bk.clone() * BigInt::from(7000) + BigInt::one(), bj.clone() * BigInt::from(65) + BigInt::one()));
            rats.push(Rat::new(-(bk.clone() * BigInt::from(3) + BigInt::one()), bj * BigInt::from(8) + BigInt::one()));
        }
        // thousands of bits
        let big = (BigInt::one() << 4096usize) + BigInt::one();
        rats.push(Rat::from_integer(big.clone()));
        rats.push(Rat::new(-big.clone(), BigInt::from(3)));
        if thorough {
            // seconds per numeral in FullInt/Digits(1000) modes: thorough tier only
            rats.push(Rat::new(BigInt::one(), big.clone()));
        }
        let bases: Vec<u32> = if thorough { (2..=36).collect() } else { vec![2, 3, 7, 10, 12, 15, 16, 36] };
        let (kmax, jmax) = if thorough { (12, 8) } else { (7, 4) };
        let mut qvals: Vec<Rat> = vec![];
        for (p, q) in [(1, 3), (2, 1), (1, 7), (1234567, 1000), (22, 7), (1, 1024), (1, 97), (-5, 6), (10000000000, 3), (1, 10000000000), (0, 1), (255, 1), (1, 3937)] {
            qvals.push(rat(p, q));
        }
        let mut fams = Fams::default();
        fams.add("rationals x bases x modes", vec![rats.len() as u64, bases.len() as u64, MODES.len() as u64]);
        fams.add(
            "(b^k+d1)/(b^j+d2)",
            vec![bases.len() as u64, kmax + 1, jmax + 1, 3, 3, 2, MODES.len() as u64],
        );
        fams.add("query path", vec![qvals.len() as u64, bases.len() as u64, MODES.len() as u64]);
        // recurring blocks of 1..10 digits whose remainder numerator is as large as it gets
        // ((b^p - 2)/(b^p - 1) = 0.[zz..zy]): the products (b^p - 1) * numerator pass 2^63 for b >= 12
        fams.add("short recurring block x largest remainder, every base", vec![35, 10, 3, 2, MODES.len() as u64]);
        // two numerals in a row on one thread: the first must not influence the second (whatever a
        // printing routine remembers between calls - scale factors, digit tables - is keyed correctly)
        fams.add("a numeral printed right after another one: value pairs x base pairs x mode", vec![SEQ_VALS.len() as u64, SEQ_VALS.len() as u64, bases.len() as u64, bases.len() as u64, SEQ_MODES.len() as u64]);
        C05 { fams, rats, bases, kmax, jmax, qvals, ctx: Lazy::new() }
    }

    fn case(&self, idx: u64) -> (usize, Option<Rat>, u32, Digits) {
        let (f, d) = self.fams.locate(idx);
        match f {
            0 => (0, Some(self.rats[d[0] as usize].clone()), self.bases[d[1] as usize], MODES[d[2] as usize]),
            1 => {
                let b = self.bases[d[0] as usize];
                let bb = BigInt::from(b);
                let num = num_traits::pow(bb.clone(), d[1] as usize) + BigInt::from(d[3] as i64 - 1);
                let den = num_traits::pow(bb, d[2] as usize) + BigInt::from(d[4] as i64 - 1);
                if den.is_zero() {
                    return (1, None, b, MODES[d[6] as usize]);
                }
                let mut v = Rat::new(num, den);
                if d[5] == 1 {
                    v = -v;
                }
                (1, Some(v), b, MODES[d[6] as usize])
            }
            4 => {
                let (p, q) = SEQ_VALS[d[1] as usize];
                (4, Some(rat(p, q)), self.bases[d[3] as usize], SEQ_MODES[d[4] as usize])
            }
            3 => {
                let b = d[0] as u32 + 2;
                let p = d[1] as usize + 1;
                let den = num_traits::pow(BigInt::from(b), p) - BigInt::one();
                let num = match d[2] {
                    0 => &den - BigInt::one(),
                    1 => &den - num_traits::pow(BigInt::from(b), p - 1),
                    _ => (&den + BigInt::one()) / BigInt::from(2u32),
                };
                if den.is_zero() || num.is_zero() {
                    return (3, None, b, MODES[d[4] as usize]);
                }
                let mut v = Rat::new(num, den);
                if d[3] == 1 {
                    v = v + Rat::from_integer(BigInt::from(12345));
                }
                (3, Some(v), b, MODES[d[4] as usize])
            }
            _ => (2, Some(self.qvals[d[0] as usize].clone()), self.bases[d[1] as usize], MODES[d[2] as usize]),
        }
    }
}

const SEQ_VALS: [(i64, i64); 6] = [(15, 1), (25_000_000_000, 1), (1, 40_000_000_000), (1, 3), (1500, 7), (1_000_000_007, 1)];
const SEQ_MODES: [Digits; 3] = [Digits::Scientific, Digits::Engineering, Digits::Default];

fn check_direct(x: &Rat, base: u32, mode: Digits) -> (String, Vec<(String, String)>) {
    let n = to_numeric(x);
    let (is_exact, text) = n.to_string(base as u8, mode);
    let mut bad = vec![];
    let outcome;
    if mode == Digits::Fraction && !x.is_zero() {
        outcome = "fraction".to_string();
        match numeral::read_fraction(&text, base) {
            Some(v) if &v == x && is_exact => {}
            Some(v) => bad.push((
                "fraction numeral does not denote the value".into(),
                format!("{} in base {} mode Fraction printed `{}` which denotes {} in that base", x, base, text, v),
            )),
            None => bad.push((
                "fraction numeral is not a numeral of the base".into(),
                format!("{} in base {} mode Fraction printed `{}`", x, base, text),
            )),
        }
    } else {
        match numeral::judge(&text, base, is_exact, x) {
            Ok(kind) => outcome = kind.to_string(),
            Err(e) => {
                outcome = "mismatch".to_string();
                bad.push((
                    format!("numeral does not denote the value ({})", if is_exact { "exact" } else { "approximate" }),
                    format!("{} in base {} mode {}: {}", engine::util::clip(&x.to_string(), 80), base, mode_name(mode), e),
                ));
            }
        }
    }
    // the exact/approx pair shown to users
    let (ex, ap) = n.string_repr(base as u8, mode);
    match (is_exact, &ex, &ap) {
        (true, Some(e), None) if *e == text => {}
        (false, None, Some(a)) if *a == text => {}
        (false, Some(frac), Some(a)) if *a == text => {
            // the num/den companion must denote the value
            match numeral::read_fraction(frac, base) {
                Some(v) if &v == x => {}
                _ => bad.push((
                    "fraction companion does not denote the value".into(),
                    format!("{} in base {} mode {}: companion `{}` next to approx `{}`", x, base, mode_name(mode), frac, a),
                )),
            }
        }
        _ => bad.push((
            "exact/approx marking inconsistent".into(),
            format!("{} base {} mode {}: is_exact={} exact={:?} approx={:?}", x, base, mode_name(mode), is_exact, ex, ap),
        )),
    }
    (outcome, bad)
}

fn mode_query(mode: Digits) -> String {
    match mode {
        Digits::Default => "".into(),
        Digits::FullInt => "digits".into(),
        Digits::Digits(n) => format!("digits {}", n),
        Digits::Scientific => "sci".into(),
        Digits::Engineering => "eng".into(),
        Digits::Fraction => "frac".into(),
    }
}

impl Space for C05 {
    fn meta(&self) -> Meta {
        Meta {
            id: "C05",
            level: "exploration",
            rule: "rationals (all p/q with |p|,q <= N; magnitudes straddling the 1e-9/1e9 switches; denominators with long/huge periods 97, 3937, 9973, 65537, 1000003; 2^4096+1 and its reciprocal; values whose recurring block starts after more than a thousand fraction places (1/(17*10^1000), 3/(17*2^1100), 5/(23*12^1003), ...); per base the family (b^k+d1)/(b^j+d2), d in {-1,0,1}, both signs; per base 2..36 the family (b^p-2)/(b^p-1), (b^p-1-b^(p-1))/(b^p-1), (b^p/2)/(b^p-1) for p in 1..10, alone and added to 12345: short recurring blocks with the largest remainders) x bases x 11 digits modes through Numeric::to_string/string_repr; every ordered pair of 6 values x every ordered pair of bases x {sci, eng, default} printed one right after the other on one thread, the second one judged; plus the query path `x -> <mode> base B`; every printed numeral is read back by an independent numeral reader (sign, integer digits, radix point, fraction digits, [block, period N]..., e+-k scaling by base^k). Non-trivial = nonzero value; distinct by (value, base, mode)".into(),
            assumptions: vec![
                "the decimal exponent after `e` scales by base^exponent".into(),
                "for bases > 14 where `e` is also a digit every consistent split is tried".into(),
                "fraction numerals p/q are read in the requested base".into(),
            ],
            exhaustive: true,
            extra: json!({"families": self.fams.summary(), "bases": self.bases, "modes": MODES.iter().map(|m| mode_name(*m)).collect::<Vec<_>>()}),
        }
    }
    fn len(&self) -> u64 {
        self.fams.total()
    }
    fn describe(&self, idx: u64) -> String {
        let (f, x, b, m) = self.case(idx);
        match x {
            Some(x) => format!("{} {} base {} mode {}", ["to_string", "to_string", "query", "to_string", "second of two to_string calls:"][f], engine::util::clip(&x.to_string(), 90), b, mode_name(m)),
            None => "(zero denominator: skipped)".into(),
        }
    }
    fn sample_indices(&self) -> Vec<u64> {
        self.fams.starts()
    }
    fn chunk(&self) -> u64 {
        64
    }
    fn heavy(&self) -> Vec<(u64, u64)> {
        // the thousands-of-bits rationals are the last entries of the first family: seconds per numeral
        let per = (self.bases.len() * MODES.len()) as u64;
        let n = self.rats.len() as u64;
        vec![((n - 4) * per, n * per)]
    }
    fn time_limit(&self, _idx: u64) -> std::time::Duration {
        std::time::Duration::from_secs(60)
    }
    fn abnormal(&self, idx: u64, kind: engine::Abnormal, info: &str) -> Option<engine::Violation> {
        if kind == engine::Abnormal::Timeout {
            return None; // slowness is C04's subject; recorded in the outcome histogram
        }
        Some(engine::Violation {
            sig: format!("{} while printing a numeral: {}", engine::kind_name(kind), engine::util::normalise_panic(info)),
            detail: format!("{}: {}", self.describe(idx), info),
        })
    }
    fn reset(&mut self) {
        self.ctx.clear();
    }
    fn run(&mut self, idx: u64) -> CaseOut {
        let (f, x, base, mode) = self.case(idx);
        let x = match x {
            Some(x) => x,
            None => return CaseOut::ok("skipped"),
        };
        let key = hash64(&(x.to_string(), base, mode_name(mode)));
        if f != 2 {
            if f == 4 {
                // print the first numeral of the pair (same mode, its own base) and discard it
                let (_, d) = self.fams.locate(idx);
                let (p, q) = SEQ_VALS[d[0] as usize];
                let _ = to_numeric(&rat(p, q)).to_string(self.bases[d[2] as usize] as u8, mode);
            }
            let (outcome, bad) = check_direct(&x, base, mode);
            let mut out = CaseOut::ok(outcome);
            if !x.is_zero() {
                out.key = Some(key);
            }
            for (s, d) in bad {
                out = out.viol(s, d);
            }
            return out;
        }
        // query path
        let ctx = self.ctx.get(fresh_ctx);
        let xs = if x.is_integer() { format!("({})", x.numer()) } else { format!("({}|{})", x.numer(), x.denom()) };
        let q = format!("{} -> {} base {}", xs, mode_query(mode), base);
        let mut out = CaseOut::ok("query").key(key);
        match eval_q(ctx, &q) {
            Ok(QueryReply::Conversion(c)) => {
                let p = &c.value;
                let shown = format!("{}", QueryReply::Conversion(c.clone()));
                let approx_marker = shown.contains("approx.");
                match (&p.exact_value, &p.approx_value) {
                    (Some(e), None) => {
                        let r = if mode == Digits::Fraction {
                            numeral::read_fraction(e, base).map(|v| v == x).unwrap_or(false)
                        } else {
                            numeral::judge(e, base, true, &x).is_ok()
                        };
                        if !r {
                            out = out.viol("query: exact numeral does not denote the value", format!("`{}` -> `{}`", q, shown));
                        }
                        if approx_marker {
                            out = out.viol("query: approx. shown for an exact numeral", format!("`{}` -> `{}`", q, shown));
                        }
                    }
                    (ex, Some(a)) => {
                        if let Err(e) = numeral::judge(a, base, false, &x) {
                            out = out.viol("query: approximate numeral is not a truncation", format!("`{}` -> `{}`: {}", q, shown, e));
                        }
                        if let Some(fr) = ex {
                            if numeral::read_fraction(fr, base).map(|v| v != x).unwrap_or(true) {
                                out = out.viol("query: fraction companion does not denote the value", format!("`{}` -> `{}`", q, shown));
                            }
                        }
                        if !approx_marker {
                            out = out.viol("query: approx. marker missing", format!("`{}` -> `{}`", q, shown));
                        }
                    }
                    (None, None) => out = out.viol("query: no numeral", format!("`{}` -> `{}`", q, shown)),
                }
                if p.raw_value.as_ref().and_then(|r| numeric_to_rat(&r.value)) != Some(x.clone()) {
                    out = out.viol("query: raw value differs", format!("`{}`", q));
                }
            }
            Ok(o) => out = out.viol("query: unexpected reply", format!("`{}` -> {}", q, reply_kind(&o))),
            Err(e) => out = out.viol("query: error", format!("`{}` -> {}", q, e)),
        }
        out
    }
}
