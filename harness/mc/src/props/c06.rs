//! C06 — displayed value times displayed unit equals the computed quantity.

use crate::common::*;
use crate::numeral;
use crate::regdump::{self, Dump};
use engine::util::{hash64, Fams};
use engine::{CaseOut, Meta, Space};
use num_bigint::BigInt;
use num_traits::{One, Signed, Zero};
use rink_core::output::{NumberParts, QueryReply};
use rink_core::Context;
use serde_json::json;

#[derive(Clone, Debug)]
struct U {
    name: String,
    value: Rat,
    dims: Dims,
}

const TFORMS: usize = 25;

pub struct C06 {
    fams: Fams,
    units: Vec<U>,
    base: Vec<String>,
    mags: Vec<(String, Rat)>,
    combos: Vec<Vec<(usize, i64)>>,
    core: Vec<U>,
    substances: Vec<String>,
    dump: Dump,
    ctx: Lazy<Context>,
    cgs: Lazy<Context>,
}

fn p10(e: i64) -> Rat {
    pow_rat(&rat(10, 1), e).unwrap()
}

fn combos(nbase: usize, max_units: usize) -> Vec<Vec<(usize, i64)>> {
    let exps = [-2i64, -1, 1, 2];
    let mut out: Vec<Vec<(usize, i64)>> = vec![];
    fn rec(start: usize, nbase: usize, left: usize, cur: &mut Vec<(usize, i64)>, out: &mut Vec<Vec<(usize, i64)>>, exps: &[i64]) {
        if !cur.is_empty() {
            out.push(cur.clone());
        }
        if left == 0 {
            return;
        }
        for b in start..nbase {
            for e in exps {
                cur.push((b, *e));
                rec(b + 1, nbase, left - 1, cur, out, exps);
                cur.pop();
            }
        }
    }
    rec(0, nbase, max_units, &mut vec![], &mut out, &exps);
    out
}

impl C06 {
    pub fn new(tier: &str) -> C06 {
        let thorough = tier == "thorough";
        let ctx = fresh_ctx();
        let dump = regdump::dump(&ctx);
        let mut units = vec![];
        for b in &dump.base_units {
            let mut d = Dims::new();
            d.insert(b.clone(), 1);
            units.push(U { name: b.clone(), value: rat(1, 1), dims: d });
        }
        for u in dump.units.values() {
            if let Some(v) = &u.value {
                if regdump::addressable(&u.name) && !v.is_zero() {
                    units.push(U { name: u.name.clone(), value: v.clone(), dims: u.dims.clone() });
                }
            }
        }
        let mut mags = vec![];
        let ks: Vec<i64> = if thorough { (-10..=10).collect() } else { vec![-10, -8, -3, -2, -1, 0, 1, 2, 3, 8, 10] };
        for k in ks {
            for (mt, m) in [("0.999", rat(999, 1000)), ("1", rat(1, 1)), ("1000", rat(1000, 1))] {
                mags.push((format!("{}e{}", mt, 3 * k), m * p10(3 * k)));
            }
        }
        let base: Vec<String> = dump.base_units.iter().cloned().collect();
        let combos = combos(base.len(), if thorough { 4 } else { 3 });
        let core: Vec<U> = ["m", "ft", "s", "hour", "kg", "lb", "N", "J", "bit", "Hz"]
            .iter()
            .map(|n| {
                let (v, d) = dump.exact(n).unwrap();
                U { name: n.to_string(), value: v.unwrap(), dims: d }
            })
            .collect();
        let substances = dump.substances.clone();
        let mut fams = Fams::default();
        fams.add("unit x magnitude x power", vec![units.len() as u64, mags.len() as u64, 4]);
        fams.add("products of base units", vec![combos.len() as u64, 2]);
        let c = core.len() as u64;
        fams.add("conversion targets with constants", vec![3, c, TFORMS as u64, c, c]);
        fams.add("digits/base modes", vec![units.len() as u64 / 4 + 1, 7, 3]);
        fams.add("substances", vec![substances.len() as u64, 4]);
        fams.add("dimensionless conversion targets with constants", vec![DIMLESS.len() as u64]);
        fams.add("a CGS-style database in which newton, joule, ... are not 1 in base units", vec![CGS_QUERIES.len() as u64]);
        fams.add("unit lists over prefixed members: every entry as displayed", vec![LIST_QUERIES.len() as u64]);
        fams.add("counted substance converted to a unit: every listed property against `property of (N substance) -> unit`", vec![substances.len() as u64, SUBST_COUNTS.len() as u64, SUBST_TARGETS.len() as u64]);
        C06 { fams, units, base, mags, combos, core, substances, dump, ctx: Lazy::new(), cgs: Lazy::new() }
    }
}

struct Shown {
    exact: bool,
    value: Rat,
    ulp: Rat,
}

fn read_num(p: &NumberParts, base: u32) -> Result<Vec<Shown>, String> {
    match (&p.exact_value, &p.approx_value) {
        (None, None) => Ok(vec![]),
        (Some(e), None) => {
            // exact: a numeral, possibly with recurring block / exponent, or a fraction
            if e.contains('/') {
                return numeral::read_fraction(e, base)
                    .map(|v| vec![Shown { exact: true, value: v, ulp: Rat::zero() }])
                    .ok_or(format!("unreadable fraction `{}`", e));
            }
            let rs = numeral::read_all(e, base);
            // several readings only for bases where `e` is a digit; exact numerals: take the plain one first
            if rs.is_empty() {
                return Err(format!("unreadable numeral `{}`", e));
            }
            Ok(rs.into_iter().map(|r| Shown { exact: true, value: r.value, ulp: r.ulp }).collect())
        }
        (ex, Some(a)) => {
            if let Some(fr) = ex {
                if let Some(v) = numeral::read_fraction(fr, base) {
                    return Ok(vec![Shown { exact: true, value: v, ulp: Rat::zero() }]);
                }
                return Err(format!("unreadable fraction companion `{}`", fr));
            }
            let rs = numeral::read_all(a, base);
            if rs.is_empty() {
                return Err(format!("unreadable numeral `{}`", a));
            }
            Ok(rs.into_iter().map(|r| Shown { exact: false, value: r.value, ulp: r.ulp }).collect())
        }
    }
}

/// numeral x factor/divfactor x product of printed unit names (read with Context::lookup) vs `want`.
/// `list_entry`: unmarked numerals may be truncations.
fn judge_parts(
    ctx: &Context,
    p: &NumberParts,
    want: &(Rat, Dims),
    base: u32,
    list_entry: bool,
    what: &str,
) -> Vec<(String, String)> {
    let mut bad = vec![];
    let readings = match read_num(p, base) {
        Ok(s) if !s.is_empty() => s,
        Ok(_) => return vec![("no numeral shown".into(), what.to_string())],
        Err(e) => return vec![("numeral unreadable".into(), format!("{}: {}", what, e))],
    };
    let names: Vec<(String, i64)> = match (&p.raw_unit, &p.raw_dimensions) {
        (Some(u), _) => u.iter().map(|(k, v)| (k.to_string(), *v)).collect(),
        (None, Some(d)) => d.iter().map(|(k, v)| (k.to_string(), *v)).collect(),
        (None, None) => vec![],
    };
    let mut uval = Rat::one();
    let mut udims = Dims::new();
    for (n, e) in &names {
        match ctx.lookup(n) {
            Some(num) => {
                let v = match numeric_to_rat(&num.value) {
                    Some(v) => v,
                    None => return vec![],
                };
                if v.is_zero() && *e < 0 {
                    return vec![("printed unit is zero-valued".into(), format!("{}: {}", what, n))];
                }
                uval *= pow_rat(&v, *e).unwrap();
                udims = dims_mul(&udims, &dims_pow(&dims_of(&num), *e), 1);
            }
            None => {
                bad.push(("printed unit name does not resolve".into(), format!("{}: `{}`", what, n)));
                return bad;
            }
        }
    }
    let mut f = Rat::one();
    if let Some(s) = &p.factor {
        match s.parse::<BigInt>() {
            Ok(v) => f *= Rat::from_integer(v),
            Err(_) => bad.push(("factor unreadable".into(), format!("{}: {}", what, s))),
        }
    }
    if let Some(s) = &p.divfactor {
        match s.parse::<BigInt>() {
            Ok(v) if !v.is_zero() => f /= Rat::from_integer(v),
            _ => bad.push(("divfactor unreadable".into(), format!("{}: {}", what, s))),
        }
    }
    if udims != want.1 {
        bad.push((
            "printed unit has another dimensionality".into(),
            format!("{}: printed {} vs quantity {}", what, dims_str(&udims), dims_str(&want.1)),
        ));
        return bad;
    }
    let scale = &f * &uval;
    // for bases where `e` is also a digit a numeral can have several readings: one must fit
    let mut fit_err: Option<(String, String)> = None;
    let mut fits = false;
    for shown in &readings {
        let total = &shown.value * &scale;
        if shown.exact && !list_entry {
            if total == want.0 {
                fits = true;
                break;
            }
            fit_err = Some((
                "exact numeral x factor x unit differs from the quantity".into(),
                format!("{}: shown {} x {} = {} but the quantity is {}", what, shown.value, scale, total, want.0),
            ));
        } else {
            // approximate (or unmarked list numeral): truncation toward zero within one last-digit unit
            let err = (&want.0 - &total).abs();
            let tol = if shown.ulp.is_zero() { Rat::zero() } else { (&shown.ulp * &scale).abs() };
            let ok = if tol.is_zero() { err.is_zero() } else { err < tol };
            if ok {
                fits = true;
                break;
            }
            fit_err = Some((
                "numeral x factor x unit is off by more than one last-digit unit".into(),
                format!("{}: shown {} x {} = {} but the quantity is {} (ulp {})", what, shown.value, scale, total, want.0, tol),
            ));
        }
    }
    if !fits {
        if let Some(e) = fit_err {
            bad.push(e);
        }
    }
    // a factor in the parts must be visible in the text
    let text = p.format("n u");
    for (tag, s) in [("* ", &p.factor), ("", &p.divfactor)] {
        if let Some(s) = s {
            if !text.contains(&format!("{}{}", tag, s)) {
                bad.push(("factor is not printed".into(), format!("{}: parts carry factor {} but the text is `{}`", what, s, text)));
            }
        }
    }
    bad
}

fn expected_quantity(ctx: &Context, dims: &Dims) -> Option<String> {
    // registry quantity for these dimensions, else the documented fallback for a single base unit
    for (d, name) in &ctx.registry.quantities {
        let dd: Dims = d.iter().map(|(k, v)| (k.to_string(), *v)).collect();
        if &dd == dims {
            return Some(name.clone());
        }
    }
    if dims.len() == 1 {
        let (k, v) = dims.iter().next().unwrap();
        return Some(if *v == 1 { k.clone() } else { format!("{}^{}", k, v) });
    }
    None
}

fn rat_text(r: &Rat) -> String {
    let a = r.abs();
    let t = if a.is_integer() { format!("{}", a.numer()) } else { format!("({}|{})", a.numer(), a.denom()) };
    if r.is_negative() {
        format!("(-{})", t)
    } else {
        t
    }
}

/// target shapes: (text, value, dims) or None when undefined for these units
fn target(f: usize, t: &U, u: &U) -> Option<(String, Rat, Dims)> {
    let (tn, un) = (regdump::q(&t.name), regdump::q(&u.name));
    let (tv, uv) = (t.value.clone(), u.value.clone());
    let same = t.dims == u.dims;
    Some(match f {
        0 => (tn, tv, t.dims.clone()),
        1 => (format!("3 {}", tn), rat(3, 1) * tv, t.dims.clone()),
        2 => (format!("{}/3", tn), tv / rat(3, 1), t.dims.clone()),
        3 => (format!("1|3 {}", tn), tv / rat(3, 1), t.dims.clone()),
        4 => (format!("-{}", tn), -tv, t.dims.clone()),
        5 => (format!("(2 {})^2", tn), rat(4, 1) * &tv * &tv, dims_pow(&t.dims, 2)),
        6 => (format!("{} {}", tn, un), tv * uv, dims_mul(&t.dims, &u.dims, 1)),
        7 => (format!("{}/{}", tn, un), tv / uv, dims_mul(&t.dims, &u.dims, -1)),
        // sums of *different* unit names are refused by design ("not meaningful"): only same-name sums
        8 if same && t.name == u.name => (format!("{} + {}", tn, un), tv + uv, t.dims.clone()),
        9 if same => (format!("2 {} + 1 {}", tn, tn), rat(3, 1) * tv, t.dims.clone()),
        10 if same && t.name == u.name => (format!("3 {} - {}", tn, un), rat(2, 1) * tv, t.dims.clone()),
        11 if same => (format!("5 {} mod 3 {}", tn, tn), rat(2, 1) * tv, t.dims.clone()),
        12 => (format!("2 {}^-1", tn), rat(2, 1) / tv, dims_pow(&t.dims, -1)),
        13 => (format!("7 {} / 2 {}", tn, un), rat(7, 2) * tv / uv, dims_mul(&t.dims, &u.dims, -1)),
        // bitwise / shift constants: the printed factor must be the computed constant
        14 => (format!("(4 xor 5) {}", tn), tv, t.dims.clone()),
        15 => (format!("(6 and 3) {}", tn), rat(2, 1) * tv, t.dims.clone()),
        16 => (format!("(1 or 2) {}", tn), rat(3, 1) * tv, t.dims.clone()),
        17 => (format!("(1 << 2) {}", tn), rat(4, 1) * tv, t.dims.clone()),
        18 => (format!("(16 >> 2) {}", tn), rat(4, 1) * tv, t.dims.clone()),
        // constants of ten and more digits that are not round: the printed factor must keep every digit
        19 => (format!("1073741824 {}", tn), rat(1073741824, 1) * tv, t.dims.clone()),
        20 => (format!("149597870700 {}", tn), rat(149597870700, 1) * tv, t.dims.clone()),
        21 => (format!("{} / 1234567891", tn), tv / rat(1234567891, 1), t.dims.clone()),
        22 => (format!("1234567891|987654321 {}", tn), rat(1234567891, 987654321) * tv, t.dims.clone()),
        // a constant under a non-integer power: shown consistently or refused, never silently truncated
        23 => (format!("4^0.5 {}", tn), rat(2, 1) * tv, t.dims.clone()),
        24 => (format!("2^1.5 {}", tn), rat(2, 1) * tv, t.dims.clone()),
        _ => return None,
    })
}

const DIMLESS: [(&str, i64, i64); 9] = [
    ("6 -> (1 or 2)", 6, 1),
    ("6 -> (4 xor 5)", 6, 1),
    ("6 -> (6 and 3)", 6, 1),
    ("6 -> 3", 6, 1),
    ("6 -> 1|3", 6, 1),
    ("7|2 -> 2", 7, 2),
    ("6 \"m\"/\"m\" -> 3", 6, 1),
    ("10 -> 2^2", 10, 1),
    ("5 -> -2", 5, 1),
];

/// A small CGS-style database in which the names the display code knows about (newton, joule,
/// pascal, watt, ..., the gram/kilogram and SI-prefix logic) are NOT worth 1 in base units.
/// Display consistency is a property of every database a Context can hold, not of the bundled one.
const CGS_DB: &str = "g !gram\ncm !centimeter\ns !second\nA !ampere\nK !kelvin\nmilli- 1e-3\nkilo- 1e3\nmega- 1e6\nm-- milli\nk-- kilo\nM-- mega\ndyne g cm / s^2\nnewton 1e5 dyne\nerg dyne cm\njoule 1e7 erg\npascal 10 dyne / cm^2\nwatt 1e7 erg / s\ncoulomb 1|10 A s\nvolt joule / coulomb\nohm volt / A\nhertz 1 / s\nlength ? cm\nmass ? g\ntime ? s\nforce ? mass length / time^2\nenergy ? force length\npower ? energy / time\npressure ? force / length^2\n";
const CGS_QUERIES: [&str; 30] = [
    "1 g cm / s^2", "3 newton", "2 joule", "5 dyne", "1 erg", "7 g cm^2 / s^2", "1 pascal", "2 g / (cm s^2)", "1 watt", "4 g cm^2 / s^3",
    "1 volt", "1 coulomb", "3 A s", "1500 g", "0.001 cm", "1 kg", "3 kilonewton", "1e7 erg", "1e5 dyne", "12 g cm^2 / (s^3 A)",
    "1 ohm", "1 hertz", "1|3 joule", "1e-9 newton", "1e12 g cm / s^2", "2 newton cm", "3 joule / s", "1 g cm^2 / (s^3 A^2)", "0.5 pascal cm^2", "1e6 g",
];

/// Unit lists whose members already carry a prefix, with values large and small against them:
/// each entry's printed numeral x printed unit must be the entry's own part.
const LIST_QUERIES: [&str; 28] = [
    "5000 s -> ms;us", "123456789 s -> ms;us", "2000 m -> mm;um", "0.002 s -> ms;us", "5000000 m -> km;m;mm", "1e9 s -> hour;min;s", "12345.678 kg -> kg;g;mg",
    "1e7 g -> g;mg", "3 GiB -> MiB;KiB;byte", "1e12 byte -> kB;byte", "7.5 mile -> mile;yard;ft;inch", "1e-7 m -> um;nm", "1e15 s -> year;day;s", "5000 m -> m;mm",
    // members in ascending or no particular order: each numeral still belongs to the name printed next to it
    "90 min -> min;hour", "2.5 ft -> inch;ft", "100000 s -> hour;day;s;min", "5000 s -> s;min;hour", "1 mile -> inch;mile;ft", "100 inch -> ft;yard;inch", "3 day -> min;day;hour", "7 kg -> g;kg",
    // values that are floats, of either sign
    "sqrt(2) hour -> hour;min", "-sqrt(2) hour -> hour;min", "-sqrt(10) day -> day;hour;min;s", "-(2^0.5) mile -> mile;ft;inch", "sqrt(7) kg -> kg;g", "-exp(1) hour -> hour;min;s",
];

const SUBST_COUNTS: [&str; 3] = ["1", "12", "(1|4)"];
// ... and targets with a constant of their own, which the reply has to show (`* 2 kilogram`)
const SUBST_TARGETS: [&str; 13] = ["kg", "m", "J", "coulomb", "m^3", "s", "K", "kg/m^3", "2 kg", "1000 g", "2|3 kg", "2 m^3", "1|4 J"];

const MODES: [&str; 7] = ["digits 10", "digits", "sci", "eng", "frac", "base 16", "digits 3 base 7"];

impl C06 {
    fn query(&self, idx: u64) -> Option<(String, (Rat, Dims), u32, u8)> {
        // returns (query, expected quantity, base, kind) kind: 0 plain, 1 conversion, 2 substance
        let (f, d) = self.fams.locate(idx);
        match f {
            0 => {
                let u = &self.units[d[0] as usize];
                let (mt, m) = &self.mags[d[1] as usize];
                let p = [1i64, 2, 3, -1][d[2] as usize];
                let q = if p == 1 { format!("{} {}", mt, regdump::q(&u.name)) } else { format!("{} {}^{}", mt, regdump::q(&u.name), p) };
                Some((q, (m * pow_rat(&u.value, p)?, dims_pow(&u.dims, p)), 10, 0))
            }
            1 => {
                let c = &self.combos[d[0] as usize];
                let m = if d[1] == 0 { ("1", rat(1, 1)) } else { ("1500", rat(1500, 1)) };
                let mut q = m.0.to_string();
                let mut dims = Dims::new();
                for (b, e) in c {
                    q.push_str(&format!(" {}^{}", regdump::q(&self.base[*b]), e));
                    dims.insert(self.base[*b].clone(), *e);
                }
                Some((q, (m.1, dims), 10, 0))
            }
            2 => {
                let v = [rat(6, 1), rat(-7, 3), p10(7)][d[0] as usize].clone();
                let s = &self.core[d[1] as usize];
                let (tt, _tv, td) = target(d[2] as usize, &self.core[d[3] as usize], &self.core[d[4] as usize])?;
                // choose the source as v * s^k so that it conforms when possible: only same-dims cases are judged
                if s.dims != td {
                    return None;
                }
                let q = format!("{} {} -> {}", rat_text(&v), regdump::q(&s.name), tt);
                Some((q, (&v * &s.value, s.dims.clone()), 10, 1))
            }
            3 => {
                let u = self.units.get(d[0] as usize * 4)?;
                let mode = MODES[d[1] as usize];
                let (mt, m) = [("1500", rat(1500, 1)), ("0.001", rat(1, 1000)), ("1|3", rat(1, 3))][d[2] as usize].clone();
                let base = if mode == "base 16" { 16 } else if mode.ends_with("base 7") { 7 } else { 10 };
                Some((format!("{} {} -> {}", mt, regdump::q(&u.name), mode), (m * &u.value, u.dims.clone()), base, 1))
            }
            5 => {
                let (q, n, dn) = DIMLESS[d[0] as usize];
                Some((q.to_string(), (rat(n, dn), Dims::new()), 10, 1))
            }
            _ => {
                let s = &self.substances[d[0] as usize];
                if !regdump::addressable(s) {
                    return None;
                }
                let q = match d[1] {
                    0 => regdump::q(s),
                    1 => format!("3 {}", regdump::q(s)),
                    2 => format!("2 kg {}", regdump::q(s)),
                    _ => format!("1 gallon {}", regdump::q(s)),
                };
                Some((q, (Rat::zero(), Dims::new()), 10, 2))
            }
        }
    }
}

impl Space for C06 {
    fn meta(&self) -> Meta {
        Meta {
            id: "C06",
            level: "exploration",
            rule: "(a) every exact registry unit and base unit x magnitudes {0.999, 1, 1000} x 10^(3k) (every SI-prefix boundary, k in -10..10 thorough) x powers {1,2,3,-1}; (b) every product of up to 3 (thorough 4) distinct base units with exponents in {-2,-1,1,2} (all derived-unit regroupings) x {1, 1500}; (c) conversions of 3 values into 19 target shapes (constants, 1|3, sign, squares, products, quotients, sums, differences, mod, and/or/xor and shift constants, non-round constants of ten and more digits as factor and as divisor, constants under a non-integer power - shown consistently or refused) over a 10-unit core; (d) digits/sci/eng/frac/base modes; (e2) 30 results in a second, CGS-style database in which newton, joule, pascal, watt, ... are not worth 1 in base units (regrouping and prefix logic must not assume the bundled values); (e3) 14 unit lists over members that already carry a prefix (ms;us, mm;um, MiB;KiB;byte ...) with values large and small against them: every entry's printed numeral x printed unit is the entry's own part; (e4) every substance x counts {1, 12, 1|4} x 8 target units: each property listed by `N substance -> unit` must print the same as `property of (N substance) -> unit`; (e) every substance x 4 amounts, every reported property and unit-list/duration entry. Oracle: the reply's numeral (independent reader) x factor/divfactor x product of the printed unit names resolved with Context::lookup must equal the quantity computed by the harness from the registry dump, exactly for exact numerals and within one last-digit unit otherwise; raw_dimensions and quantity must be those of the result. Non-trivial = a numeric reply was judged; distinct by query text".into(),
            assumptions: vec![
                "temperature-scale replies are decided by C10".into(),
                "float-valued units are skipped".into(),
                "for substances the expected property values come from the registry's own Property{input,output} (C16 decides their arithmetic)".into(),
            ],
            exhaustive: true,
            extra: json!({"families": self.fams.summary(), "units": self.units.len()}),
        }
    }
    fn len(&self) -> u64 {
        self.fams.total()
    }
    fn describe(&self, idx: u64) -> String {
        if self.fams.locate(idx).0 == 6 {
            return format!("CGS database: {}", CGS_QUERIES[self.fams.locate(idx).1[0] as usize]);
        }
        if self.fams.locate(idx).0 == 7 {
            return LIST_QUERIES[self.fams.locate(idx).1[0] as usize].to_string();
        }
        if self.fams.locate(idx).0 == 8 {
            let d = self.fams.locate(idx).1;
            return format!("{} {} -> {}", SUBST_COUNTS[d[1] as usize], self.substances[d[0] as usize], SUBST_TARGETS[d[2] as usize]);
        }
        self.query(idx).map(|q| q.0).unwrap_or_else(|| "(skipped)".into())
    }
    fn sample_indices(&self) -> Vec<u64> {
        self.fams.starts()
    }
    fn chunk(&self) -> u64 {
        3000
    }
    fn reset(&mut self) {
        self.ctx.clear();
        self.cgs.clear();
    }
    fn run(&mut self, idx: u64) -> CaseOut {
        if self.fams.locate(idx).0 == 8 {
            let d = self.fams.locate(idx).1;
            let s = &self.substances[d[0] as usize];
            if !regdump::addressable(s) {
                return CaseOut::ok("skipped");
            }
            let (n, u) = (SUBST_COUNTS[d[1] as usize], SUBST_TARGETS[d[2] as usize]);
            let q = format!("{} {} -> {}", n, regdump::q(s), u);
            let ctx = self.ctx.get(fresh_ctx);
            let mut out = CaseOut::ok("counted substance conversion").key(hash64(&q));
            match eval_q(ctx, &q) {
                Ok(QueryReply::Substance(r)) => {
                    let mut judged = 0;
                    for pr in &r.properties {
                        // the same figure by the other route: the single-property query
                        let q2 = format!("{} of ({} {}) -> {}", regdump::q(&pr.name), n, regdump::q(s), u);
                        if let Ok(QueryReply::Conversion(c)) = eval_q(ctx, &q2) {
                            judged += 1;
                            let a = (&pr.value.exact_value, &pr.value.approx_value, &pr.value.unit, &pr.value.factor, &pr.value.divfactor);
                            let b = (&c.value.exact_value, &c.value.approx_value, &c.value.unit, &c.value.factor, &c.value.divfactor);
                            if a != b {
                                out = out.viol(
                                    "a property listed for a counted substance differs from the same property asked for alone",
                                    format!("`{}` lists {} = {} but `{}` gives {}", q, pr.name, pr.value, q2, c.value),
                                );
                            }
                        }
                    }
                    // ... and every listed figure read back as rink itself reads it: numeral, the target's
                    // constant and the printed unit must multiply out to the property (or, where the target
                    // matched the property's other side, to its reciprocal)
                    if d[1] == 0 {
                        for pr in &r.properties {
                            let v = &pr.value;
                            let (num, exact) = match (&v.exact_value, &v.approx_value) {
                                (Some(e), _) => (e.clone(), true),
                                (None, Some(a)) => (a.clone(), false),
                                _ => continue,
                            };
                            let unit = match &v.unit {
                                Some(u) if !u.is_empty() => u.clone(),
                                _ => match &v.dimensions {
                                    Some(dm) if !dm.is_empty() => dm.clone(),
                                    _ => continue,
                                },
                            };
                            if num.contains('[') || num.contains("...") || !unit.chars().all(|ch| ch.is_ascii_alphanumeric() || " /^-_".contains(ch)) {
                                continue;
                            }
                            let text = format!("({}) * ({}) / ({}) * ({})", num, v.factor.clone().unwrap_or_else(|| "1".into()), v.divfactor.clone().unwrap_or_else(|| "1".into()), unit);
                            let shown = match eval_q(ctx, &text) {
                                Ok(QueryReply::Number(p)) => p.raw_value,
                                _ => None,
                            };
                            let reference = match eval_q(ctx, &format!("{} of {}", regdump::q(&pr.name), regdump::q(s))) {
                                Ok(QueryReply::Number(p)) => p.raw_value,
                                _ => None,
                            };
                            if let (Some(a), Some(b)) = (shown, reference) {
                                let (da, db) = (dims_of(&a), dims_of(&b));
                                let (fa, fb) = (a.value.to_f64(), b.value.to_f64());
                                let want = if da == db {
                                    fb
                                } else if da == dims_pow(&db, -1) {
                                    1.0 / fb
                                } else {
                                    continue;
                                };
                                judged += 1;
                                let tol = if exact { 1e-12 } else { 1e-5 };
                                if !((fa - want).abs() <= tol * want.abs()) {
                                    out = out.viol(
                                        "a property listed for a substance conversion does not denote the property (read back)",
                                        format!("`{}` lists {} = {}, which reads as {:e} {}, but the property is {:e} {}", q, pr.name, pr.value, fa, dims_str(&da), want, dims_str(&da)),
                                    );
                                }
                            }
                        }
                    }
                    if judged == 0 {
                        out.outcome = "counted substance conversion (nothing comparable)".into();
                        out.key = None;
                    }
                }
                _ => {
                    out.outcome = "counted substance conversion refused / other".into();
                    out.key = None;
                }
            }
            return out;
        }
        if self.fams.locate(idx).0 == 7 {
            let q = LIST_QUERIES[self.fams.locate(idx).1[0] as usize];
            let ctx = self.ctx.get(fresh_ctx);
            let mut out = CaseOut::ok("unit list entries").key(hash64(&("list", q)));
            // what the whole list has to add up to: the left-hand side evaluated on its own
            let source: Option<(Rat, Dims)> = match eval_q(ctx, q.split(" -> ").next().unwrap_or("")) {
                Ok(QueryReply::Number(p)) => p.raw_value.as_ref().and_then(|r| numeric_to_rat(&r.value).map(|v| (v, dims_of(r)))),
                Ok(QueryReply::Duration(d)) => d.raw.raw_value.as_ref().and_then(|r| numeric_to_rat(&r.value).map(|v| (v, dims_of(r)))),
                _ => None,
            };
            let source_f: Option<f64> = match eval_q(ctx, q.split(" -> ").next().unwrap_or("")) {
                Ok(QueryReply::Number(p)) => p.raw_value.as_ref().map(|r| r.value.to_f64()),
                Ok(QueryReply::Duration(d)) => d.raw.raw_value.as_ref().map(|r| r.value.to_f64()),
                _ => None,
            };
            let mut total: Option<Rat> = Some(rat(0, 1));
            let mut total_f: Option<f64> = Some(0.0);
            match eval_q(ctx, q) {
                Ok(QueryReply::UnitList(l)) => {
                    for e in &l.list {
                        // the same sum in floating point, for values that are floats
                        match (&e.raw_value, total_f) {
                            (Some(r), Some(t)) => {
                                let u = r.unit.iter().next().and_then(|(k, _)| ctx.lookup(&k.to_string())).map(|uv| uv.value.to_f64());
                                total_f = u.map(|u| t + r.value.to_f64() * u);
                            }
                            _ => total_f = None,
                        }
                        let raw = match &e.raw_value {
                            Some(r) => r,
                            None => {
                                out = out.viol("unit-list entry without a raw value", q.to_string());
                                continue;
                            }
                        };
                        let part = match numeric_to_rat(&raw.value) {
                            Some(p) => p,
                            None => {
                                total = None;
                                continue;
                            }
                        };
                        let uname: Vec<String> = raw.unit.iter().map(|(k, _)| k.to_string()).collect();
                        match uname.first().and_then(|n| ctx.lookup(n)).and_then(|uv| numeric_to_rat(&uv.value).map(|v| (v, dims_of(&uv)))) {
                            Some((uv, ud)) => {
                                total = total.map(|t| t + part.clone() * uv.clone());
                                let w = (part * uv, ud);
                                for (sg, dt) in judge_parts(ctx, e, &w, 10, true, &format!("{} [entry {}]", q, uname[0])) {
                                    out = out.viol(format!("{} (unit-list entry)", sg), dt);
                                }
                            }
                            None => {
                                total = None;
                                out = out.viol("unit-list entry's own unit does not resolve", format!("{}: {:?}", q, uname))
                            }
                        }
                    }
                    if total.is_none() || source.is_none() {
                        if let (Some(t), Some(sv)) = (total_f, source_f) {
                            if !((t - sv).abs() <= 1e-9 * sv.abs()) {
                                out = out.viol("the entries of a unit list do not add up to the value converted (unit-list sum)", format!("`{}`: the entries add up to {:e} base units, the value is {:e}", q, t, sv));
                            }
                        }
                    }
                    if let (Some(t), Some((sv, _))) = (&total, &source) {
                        if t != sv {
                            out = out.viol("the entries of a unit list do not add up to the value converted (unit-list sum)", format!("`{}`: the entries, each read with the unit printed next to it, add up to {} base units, the value is {}", q, t, sv));
                        }
                    }
                }
                Ok(o) => out = out.viol("unit list not answered as a list", format!("`{}` -> {}", q, reply_kind(&o))),
                Err(e) => out = out.viol("unit list refused", format!("`{}`: {}", q, e)),
            }
            return out;
        }
        if self.fams.locate(idx).0 == 6 {
            let q = CGS_QUERIES[self.fams.locate(idx).1[0] as usize];
            let ctx = self.cgs.get(|| {
                let mut c = Context::new();
                c.use_humanize = false;
                c.load_definitions(CGS_DB).expect("the CGS database must load");
                c
            });
            let mut out = CaseOut::ok("other database").key(hash64(&("cgs", q)));
            match eval_q(ctx, q) {
                Ok(QueryReply::Number(p)) => {
                    let raw = p.raw_value.clone().unwrap();
                    match numeric_to_rat(&raw.value) {
                        Some(v) => {
                            let want = (v, dims_of(&raw));
                            for (sg, dt) in judge_parts(ctx, &p, &want, 10, false, q) {
                                out = out.viol(format!("{} (CGS database)", sg), dt);
                            }
                        }
                        None => out.outcome = "other database: float".into(),
                    }
                }
                Ok(o) => out = out.viol("unexpected reply in the CGS database", format!("`{}` -> {}", q, reply_kind(&o))),
                Err(e) => out = out.viol("query refused in the CGS database", format!("`{}`: {}", q, e)),
            }
            return out;
        }
        let (q, want, base, kind) = match self.query(idx) {
            Some(x) => x,
            None => return CaseOut::ok("skipped"),
        };
        let ctx = self.ctx.get(fresh_ctx);
        let res = eval_q(ctx, &q);
        let mut out = CaseOut::ok("").key(hash64(&q));
        let check_meta = |p: &NumberParts, dims: &Dims, out: &mut Vec<(String, String)>| {
            if let Some(rd) = &p.raw_dimensions {
                let rd: Dims = rd.iter().map(|(k, v)| (k.to_string(), *v)).collect();
                if &rd != dims {
                    out.push(("raw_dimensions are not those of the result".into(), format!("`{}`: {} vs {}", q, dims_str(&rd), dims_str(dims))));
                }
            }
            let exp = expected_quantity(ctx, dims);
            if p.quantity != exp {
                out.push(("quantity shown is not that of the result".into(), format!("`{}`: {:?} vs {:?}", q, p.quantity, exp)));
            }
        };
        let mut bad: Vec<(String, String)> = vec![];
        match (&res, kind) {
            (Ok(QueryReply::Number(p)), 0) => {
                out.outcome = "plain number".into();
                let raw = p.raw_value.as_ref().unwrap();
                if numeric_to_rat(&raw.value).as_ref() != Some(&want.0) || dims_of(raw) != want.1 {
                    bad.push(("raw value differs from the reference".into(), format!("`{}`: {:?}", q, raw)));
                }
                bad.extend(judge_parts(ctx, p, &want, base, false, &q));
                check_meta(p, &want.1, &mut bad);
            }
            (Ok(QueryReply::Duration(d)), 0) => {
                out.outcome = "duration".into();
                bad.extend(judge_parts(ctx, &d.raw, &want, base, false, &q));
                check_meta(&d.raw, &want.1, &mut bad);
                // each entry: numeral x its unit == its own raw part (unmarked, may be truncated)
                for e in [&d.years, &d.weeks, &d.days, &d.hours, &d.minutes, &d.seconds] {
                    if let Some(raw) = &e.raw_value {
                        let part = numeric_to_rat(&raw.value).unwrap_or_else(Rat::zero);
                        // the raw part is expressed in the entry's own unit
                        let uname: Vec<String> = raw.unit.iter().map(|(k, _)| k.to_string()).collect();
                        if let Some(uv) = uname.first().and_then(|n| ctx.lookup(n)) {
                            if let Some(uvr) = numeric_to_rat(&uv.value) {
                                let w = (part * uvr, dims_of(&uv));
                                bad.extend(judge_parts(ctx, e, &w, 10, true, &format!("{} [entry {}]", q, uname[0])));
                            }
                        }
                    }
                }
            }
            (Ok(QueryReply::Conversion(c)), 1) => {
                out.outcome = "conversion".into();
                bad.extend(judge_parts(ctx, &c.value, &want, base, false, &q));
                check_meta(&c.value, &want.1, &mut bad);
            }
            (Ok(QueryReply::Substance(s)), 2) => {
                out.outcome = "substance".into();
                // every reported property: numeral x printed unit == its raw value read in the names it carries
                for pr in &s.properties {
                    let p = &pr.value;
                    if let Some(raw) = &p.raw_value {
                        // raw is expressed over names that are either base units or display names: resolve each
                        let mut v = match numeric_to_rat(&raw.value) {
                            Some(v) => v,
                            None => continue,
                        };
                        let mut dims = Dims::new();
                        let mut ok = true;
                        for (n, e) in raw.unit.iter() {
                            match ctx.lookup(&n.to_string()) {
                                Some(num) => match numeric_to_rat(&num.value) {
                                    Some(x) => {
                                        v *= pow_rat(&x, *e).unwrap_or_else(Rat::one);
                                        dims = dims_mul(&dims, &dims_pow(&dims_of(&num), *e), 1);
                                    }
                                    None => ok = false,
                                },
                                None => {
                                    ok = false;
                                    bad.push(("substance property carries an unresolvable unit".into(), format!("`{}` {}: {}", q, pr.name, n)));
                                }
                            }
                        }
                        if ok {
                            bad.extend(judge_parts(ctx, p, &(v, dims), 10, false, &format!("{} [{}]", q, pr.name)));
                        }
                    }
                }
            }
            (Ok(o), _) => {
                out.outcome = format!("other reply: {}", reply_kind(o));
                out.key = None;
            }
            (Err(_), 1) if q.contains("^0.5 ") || q.contains("^1.5 ") => {
                // a non-integer power of a target constant may be refused
                out.outcome = "conversion refused (non-integer power in the target)".into();
                out.key = None;
            }
            (Err(e), 1) => {
                out.outcome = "conversion refused".into();
                bad.push(("conformable conversion refused".into(), format!("`{}`: {}", q, e)));
            }
            (Err(e), 2) => {
                out.outcome = "substance query refused".into();
                out.key = None;
                let _ = e;
            }
            (Err(e), _) => {
                out.outcome = "refused".into();
                bad.push(("plain quantity refused".into(), format!("`{}`: {}", q, e)));
            }
        }
        for (s, d) in bad {
            out = out.viol(s, d);
        }
        out
    }
}
