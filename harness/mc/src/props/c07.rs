//! C07 — unit names resolve exact first, then prefix, then plural; canonicalisation keeps
//! the denotation; resolution is deterministic.

use crate::common::*;
use crate::regdump::{self, Dump, Reading};
use engine::util::{hash64, Fams};
use engine::{CaseOut, Meta, Space};
use num_traits::ToPrimitive;
use rink_core::types::Number;
use rink_core::Context;
use serde_json::json;

pub const CURRENCY_JSON: &str = include_str!("/repo/core/tests/currency.snapshot.json");

pub fn currency_ctx() -> Context {
    let mut ctx = fresh_ctx();
    ctx.load_currency(CURRENCY_JSON, rink_core::CURRENCY_FILE.unwrap())
        .expect("currency overlay must load");
    ctx
}

/// Pool of deliberately colliding definitions for the sub-database sweep.
const POOL: [&str; 12] = [
    "s !second",
    "m !meter",
    "milli- 1e-3",
    "m-- milli",
    "k-- 1e3",
    "mi-- 2",
    "min 60 s",
    "ms 42 s",
    "ks 7 m",
    "mins 99 m",
    // a quantity that shares its name with a unit (as `force` and `jerk` do in the bundled file) and
    // whose definition is a bare name: canonicalisation must keep following the *unit's* definition
    "min ? s",
    // an exact name that is also the long-prefix spelling of a short-prefix + unit reading:
    // `mmin` reads as m + min, and its canonical spelling `millimin` must not be this unit
    "millimin 5 m",
];
/// Always loaded.  The last entry is a substance that is rejected half-way (its second property
/// is malformed) after a first property whose names collide with pool units: nothing of a
/// rejected definition may influence what a name denotes afterwards.
const EXTRA: [&str; 4] = ["in 0.0254 m", "n 5 m", "n ? m", "junk {\n  ms const min 3 m\n  broken const y 1 nothing_defined\n}"];
/// (name, expression in query syntax) of the definition that is loaded as a parsed entry.
const CALL_DEF: (&str, &str) = ("a_half", "sqrt(900 min^2)");
const QP: [&str; 5] = ["", "m", "milli", "k", "mi"];
const QU: [&str; 10] = ["s", "second", "m", "meter", "min", "in", "ms", "ks", "mins", "n"];

/// Second-load family: a small database, then further definition files that define some of its
/// names again (as the CLI's currency.units or a user's extra file can). What a name denotes
/// afterwards - and what its canonical name denotes - is judged on the final registry.
const BASE2: &str = "s !second\nm !meter\nmilli- 1e-3\nkilo- 1e3\nk-- kilo\nfoot 0.3048 m\nyard 3 foot\nstep foot\npace 2 step\nklick kilo m\n";
const REDEF: [&str; 7] = ["step yard", "foot 0.5 m", "step 2 m", "yard foot", "kilo- 1e2", "k-- milli", "klick yard"];
const QP2: [&str; 4] = ["", "k", "kilo", "milli"];
const QU2: [&str; 8] = ["s", "m", "foot", "yard", "step", "pace", "klick", "meter"];

struct Loaded {
    a: Context,
    b: Context,
    dump: Dump,
}

pub struct C07 {
    fams: Fams,
    names: Vec<String>,
    prefixes: Vec<String>,
    plain: Lazy<Loaded>,
    cur: Lazy<Loaded>,
    session: Lazy<Loaded>,
}

impl C07 {
    pub fn new(_tier: &str) -> C07 {
        let ctx = currency_ctx();
        let d = regdump::dump(&ctx);
        let mut names: Vec<String> = d.units.keys().cloned().collect();
        names.extend(d.base_units.iter().cloned());
        names.sort();
        names.dedup();
        let mut prefixes: Vec<String> = vec![String::new()];
        prefixes.extend(d.prefixes.iter().map(|p| p.0.clone()));
        let mut fams = Fams::default();
        fams.add("bundled database: config x prefix x name x plural", vec![3, prefixes.len() as u64, names.len() as u64, 2]);
        fams.add("all sub-databases of the colliding pool", vec![1 << POOL.len()]);
        fams.add("second load redefining names: every subset of 7 redefinitions as one extra file", vec![1 << REDEF.len(), 4]);
        fams.add("third load: every ordered pair of redefinitions as two extra files", vec![(REDEF.len() * REDEF.len()) as u64, 4]);
        C07 { fams, names, prefixes, plain: Lazy::new(), cur: Lazy::new(), session: Lazy::new() }
    }
}

impl C07 {
    fn loads(f: usize, i: u64) -> Vec<String> {
        if f == 2 {
            let mut t = String::new();
            for k in 0..REDEF.len() {
                if i >> k & 1 == 1 {
                    t.push_str(REDEF[k]);
                    t.push('\n');
                }
            }
            vec![t]
        } else {
            let n = REDEF.len() as u64;
            vec![format!("{}\n", REDEF[(i / n) as usize]), format!("{}\n", REDEF[(i % n) as usize])]
        }
    }
}

/// History analysis for the reload families (texts only, no rink code): does `name`, read as
/// [prefix]stem[s], have an alias chain stem -> y -> ... in the *latest* definitions in which some
/// target was defined again by a later load than the alias pointing at it was evaluated?  rink
/// evaluates definitions eagerly, so such an alias keeps the value of the old target.
fn stale_alias(loads: &[String], name: &str) -> bool {
    let mut latest: std::collections::BTreeMap<String, (usize, String)> = Default::default();
    let mut texts = vec![BASE2.to_string()];
    texts.extend(loads.iter().cloned());
    for (i, t) in texts.iter().enumerate() {
        for line in t.lines() {
            if let Some((n, rhs)) = line.trim().split_once(' ') {
                if !n.ends_with('-') {
                    latest.insert(n.to_string(), (i, rhs.trim().to_string()));
                }
            }
        }
    }
    let mut stems = vec![];
    for p in QP2 {
        if let Some(rest) = name.strip_prefix(p) {
            stems.push(rest.to_string());
            if let Some(r) = rest.strip_suffix('s') {
                stems.push(r.to_string());
            }
        }
    }
    for stem in stems {
        let mut x = stem;
        for _ in 0..10 {
            let (lx, rhs) = match latest.get(&x) {
                Some(v) => v.clone(),
                None => break,
            };
            match latest.get(&rhs) {
                Some((ly, _)) => {
                    if *ly > lx {
                        return true;
                    }
                    x = rhs;
                }
                None => break,
            }
        }
    }
    false
}

fn same(n: &Number, r: &Reading) -> bool {
    if dims_of(n) != r.dims {
        return false;
    }
    match (&r.value, numeric_to_rat(&n.value)) {
        (Some(a), Some(b)) => *a == b,
        (None, None) => {
            let g = n.value.to_f64();
            g == r.fvalue || (g - r.fvalue).abs() <= 1e-12 * r.fvalue.abs()
        }
        _ => false,
    }
}

/// Compare rink's lookup of `name` with the reference resolver; returns violations.
fn judge_name(l: &Loaded, name: &str) -> (String, Vec<(String, String)>) {
    let mut bad = vec![];
    let got = l.a.lookup(name);
    let again = l.a.lookup(name);
    let other = l.b.lookup(name);
    if got != again || got != other {
        bad.push(("resolution is not deterministic".to_string(), format!("`{}`: {:?} / {:?} / {:?}", name, got, again, other)));
    }
    // lookup takes the first stored prefix that fits: two loads of one text that store their prefixes
    // in different orders resolve names with two readings differently, whichever name is asked here
    if l.a.registry.prefixes != l.b.registry.prefixes {
        let at = l.a.registry.prefixes.iter().zip(l.b.registry.prefixes.iter()).position(|(x, y)| x != y).unwrap_or(0);
        bad.push((
            "resolution is not deterministic: two loads of the same text order their prefixes differently".to_string(),
            format!("prefix #{} is {:?} in one load and {:?} in the other", at, l.a.registry.prefixes.get(at).map(|p| &p.0), l.b.registry.prefixes.get(at).map(|p| &p.0)),
        ));
    }
    let readings = l.dump.resolve(name);
    let outcome = match (&got, readings.is_empty()) {
        (None, true) => "denotes nothing".to_string(),
        (Some(g), true) => {
            bad.push((
                "resolved a name that nothing defines".into(),
                format!("`{}` -> {:?} but no exact, prefix or plural reading exists", name, g),
            ));
            "spurious".into()
        }
        (None, false) => {
            bad.push((
                format!("failed to resolve a defined name ({})", readings[0].how),
                format!("`{}` should denote {:?} {}", name, readings[0].value.as_ref().map(|v| v.to_string()), dims_str(&readings[0].dims)),
            ));
            "missing".into()
        }
        (Some(g), false) => {
            if !readings.iter().any(|r| same(g, r)) {
                bad.push((
                    format!("wrong reading chosen (reference: {})", readings[0].how),
                    format!(
                        "`{}` -> {:?} but the resolution order gives {:?} {} ({})",
                        name,
                        g,
                        readings[0].value.as_ref().map(|v| v.to_string()),
                        dims_str(&readings[0].dims),
                        readings[0].how
                    ),
                ));
            }
            if readings.len() > 1 {
                format!("{} (competing splits)", readings[0].how)
            } else {
                readings[0].how.to_string()
            }
        }
    };
    // canonicalisation keeps the denotation
    if let (Some(g), Some(c)) = (&got, l.a.canonicalize(name)) {
        match l.a.lookup(&c) {
            Some(cv) if cv == *g => {}
            Some(cv) => bad.push((
                format!("canonical name denotes another value ({})", classify_canon(&l.dump, name)),
                format!("`{}` = {:?} but canonical `{}` = {:?}", name, g, c, cv),
            )),
            None => bad.push((
                format!("canonical name denotes nothing ({})", classify_canon(&l.dump, name)),
                format!("`{}` = {:?} but canonical `{}` does not resolve", name, g, c),
            )),
        }
    }
    (outcome, bad)
}

/// Which structural class a canonicalisation failure belongs to (computed from the dump,
/// used only to keep known-finding signatures narrow).
fn classify_canon(d: &Dump, name: &str) -> &'static str {
    for stem in [Some(name), name.strip_suffix('s')].iter().flatten() {
        for (p, _) in &d.prefixes {
            if let Some(rest) = stem.strip_prefix(p.as_str()) {
                if d.quantity_dims.contains_key(rest) && !d.units.contains_key(rest) && !d.base_units.contains(rest) {
                    return "prefix + quantity name";
                }
                if let Some(u) = d.units.get(rest) {
                    if u.is_alias {
                        return "prefix + alias";
                    }
                }
            }
        }
    }
    "other"
}

impl Space for C07 {
    fn meta(&self) -> Meta {
        Meta {
            id: "C07",
            level: "exploration",
            rule: "every string prefix+name[+s] over all prefixes (and none) x all unit and base-unit names of the bundled database, with and without the currency overlay and in a context that holds a previous answer, looked up through Context::lookup on two independent loads and compared with an independent resolver over the registry dump (exact, else any valid prefix split, else plural); lookup(canonicalize(n)) must equal lookup(n). Plus all 2^12 sub-databases of a pool of colliding definitions (incl. quantities named like units) x 100 concatenated query names, each loaded together with one entry parsed by the query parser (`a_half = sqrt(900 min^2)`, the way JSON currency data arrives) whose value must be 30 x whatever `min` denotes exact-first; plus load histories on one Context: a 10-line base database followed by every subset of 7 redefinitions (aliases re-pointed, values changed, prefixes changed) as a second file, and every ordered pair of them as a second and third file, x 64 names each, with the later files given as text or as parsed entries and with or without a lookup of every name before each load. Non-trivial = the name has at least one reading or rink resolves it; distinct by (config, name)".into(),
            assumptions: vec![
                "the statement does not rank competing prefix splits: any valid split is accepted, determinism pins the choice".into(),
                "the registry dump gives each exact name's value".into(),
            ],
            exhaustive: true,
            extra: json!({"families": self.fams.summary(), "prefixes": self.prefixes.len() - 1, "names": self.names.len(), "pool": POOL, "pool_always_loaded": EXTRA}),
        }
    }
    fn len(&self) -> u64 {
        self.fams.total()
    }
    fn describe(&self, idx: u64) -> String {
        let (f, d) = self.fams.locate(idx);
        if f == 0 {
            format!(
                "{}: {}{}{}",
                ["bundled", "bundled+currency", "bundled, mid-session (an answer is stored)"][d[0] as usize],
                self.prefixes[d[1] as usize],
                self.names[d[2] as usize],
                if d[3] == 1 { "s" } else { "" }
            )
        } else if f == 1 {
            let lines: Vec<&str> = (0..POOL.len()).filter(|i| d[0] >> i & 1 == 1).map(|i| POOL[i]).collect();
            format!("sub-database {{{}}}", lines.join("; "))
        } else {
            format!("base database{}, then {}", ["", " (later files as parsed entries)", " (names looked up before each load)", " (names looked up before each load; later files as parsed entries)"][d[1] as usize], Self::loads(f, d[0]).iter().map(|l| format!("load {{{}}}", l.trim().replace('\n', "; "))).collect::<Vec<_>>().join(", then "))
        }
    }
    fn sample_indices(&self) -> Vec<u64> {
        self.fams.starts()
    }
    fn chunk(&self) -> u64 {
        20000
    }
    fn reset(&mut self) {
        self.plain.clear();
        self.cur.clear();
        self.session.clear();
    }
    fn run(&mut self, idx: u64) -> CaseOut {
        let (f, d) = self.fams.locate(idx);
        if f == 0 {
            let name = format!(
                "{}{}{}",
                self.prefixes[d[1] as usize],
                self.names[d[2] as usize],
                if d[3] == 1 { "s" } else { "" }
            );
            let l = if d[0] == 2 {
                // a context in the middle of a session: the previous-answer feature is on and an
                // answer is stored.  Only the three documented spellings ans / ANS / _ may see it.
                self.session.get(|| {
                    let mk = || {
                        let mut c = fresh_ctx();
                        c.save_previous_result = true;
                        let _ = rink_core::eval(&mut c, "3 foot");
                        c
                    };
                    let a = mk();
                    let dump = regdump::dump(&a);
                    Loaded { a, b: mk(), dump }
                })
            } else if d[0] == 0 {
                self.plain.get(|| {
                    let a = fresh_ctx();
                    let dump = regdump::dump(&a);
                    Loaded { a, b: fresh_ctx(), dump }
                })
            } else {
                self.cur.get(|| {
                    let a = currency_ctx();
                    let dump = regdump::dump(&a);
                    Loaded { a, b: currency_ctx(), dump }
                })
            };
            let (outcome, bad) = judge_name(l, &name);
            let mut out = CaseOut::ok(outcome.clone());
            if outcome != "denotes nothing" {
                out.key = Some(hash64(&(d[0], &name)));
            }
            for (s, dt) in bad {
                out = out.viol(s, format!("[{}] {}", ["bundled", "bundled+currency", "bundled, mid-session (an answer is stored)"][d[0] as usize], dt));
            }
            out
        } else if f >= 2 {
            let loads = Self::loads(f, d[0]);
            // the later files arrive as text (load_definitions) or as parsed entries (Context::load,
            // which is what the CLI and the currency loader use); optionally every name is looked
            // up once before they arrive, so that anything a lookup remembers is already filled
            let (parsed, warm) = (d[1] & 1 == 1, d[1] & 2 == 2);
            let load = || {
                let mut c = Context::new();
                c.use_humanize = false;
                let _ = c.load_definitions(BASE2);
                for l in &loads {
                    if warm {
                        for p in QP2 {
                            for u in QU2 {
                                for sfx in ["", "s"] {
                                    let n = format!("{}{}{}", p, u, sfx);
                                    let _ = c.lookup(&n);
                                    let _ = c.canonicalize(&n);
                                }
                            }
                        }
                    }
                    if parsed {
                        let _ = c.load(rink_core::loader::gnu_units::parse_str(l));
                    } else {
                        let _ = c.load_definitions(l);
                    }
                }
                c
            };
            let a = load();
            let dump = regdump::dump(&a);
            let l = Loaded { a, b: load(), dump };
            let tag = format!("base; {}{}{}", loads.iter().map(|l| l.trim().replace('\n', "; ")).collect::<Vec<_>>().join(" | "), if parsed { " [as parsed entries]" } else { "" }, if warm { " [names looked up before each load]" } else { "" });
            let mut out = CaseOut::ok("reloaded database").key(hash64(&tag));
            let mut n = 0;
            for p in QP2 {
                for u in QU2 {
                    for s in ["", "s"] {
                        let name = format!("{}{}{}", p, u, s);
                        let (_o, bad) = judge_name(&l, &name);
                        n += 1;
                        for (sg, dt) in bad {
                            let sg = if sg.starts_with("canonical name denotes another value") && stale_alias(&loads, &name) {
                                "canonical name denotes another value (alias evaluated in an earlier load than the redefinition of its target)".to_string()
                            } else {
                                sg
                            };
                            out = out.viol(sg, format!("[{}] {}", tag, dt));
                        }
                    }
                }
            }
            out.count("names_looked_up", n)
        } else {
            let mut text = String::new();
            for e in EXTRA {
                text.push_str(e);
                text.push('\n');
            }
            for i in 0..POOL.len() {
                if d[0] >> i & 1 == 1 {
                    text.push_str(POOL[i]);
                    text.push('\n');
                }
            }
            // One more definition arrives the way currency data does: as an already parsed entry
            // whose expression comes from the *query* parser and so can contain a function call.  Its
            // name sorts first; the names inside the call must be resolved like anywhere else.
            let load = || {
                use rink_core::ast::{Def, DefEntry, Defs, ExprString};
                use rink_core::parsing::text_query;
                let mut c = Context::new();
                c.use_humanize = false;
                let mut defs = rink_core::loader::gnu_units::parse_str(&text).defs;
                let mut it = text_query::TokenIterator::new(CALL_DEF.1).peekable();
                let expr = text_query::parse_expr(&mut it);
                defs.push(DefEntry::new(CALL_DEF.0, None, None, Def::Unit { expr: ExprString(expr) }));
                let _ = c.load(Defs { defs }); // dangling references are reported; whatever loaded is the database
                c
            };
            let a = load();
            let dump = regdump::dump(&a);
            let l = Loaded { a, b: load(), dump };
            let mut out = CaseOut::ok("sub-database").key(hash64(&text));
            {
                // sqrt(900 x^2) = 30 x (as a float).  Judged when `min` is defined exactly: that
                // definition is what the name must denote inside the call as well, however the
                // entries are ordered internally; with only prefix/plural readings (which may
                // depend on definitions that failed to load) the entry is not judged.
                let readings = l.dump.resolve("min");
                let got = l.a.lookup(CALL_DEF.0);
                if let Some(r) = readings.first().filter(|r| r.how == "exact") {
                    let want = r.value.as_ref().and_then(|v| v.to_f64()).unwrap_or(r.fvalue) * 30.0;
                    match &got {
                        None => out = out.viol("definition through a function call did not load although its operand is defined exactly", format!("[{}] `{} = {}`", text.replace('\n', "; "), CALL_DEF.0, CALL_DEF.1)),
                        Some(g) => {
                            let gv = g.value.to_f64();
                            if dims_of(g) != r.dims || !((gv - want).abs() <= 1e-9 * want.abs()) {
                                out = out.viol(
                                    "a name inside a function call was not resolved exact-first while loading",
                                    format!("[{}] `{} = {}` is {:?} but `min` is defined exactly as {} {}", text.replace('\n', "; "), CALL_DEF.0, CALL_DEF.1, g, want / 30.0, dims_str(&r.dims)),
                                );
                            }
                        }
                    }
                }
            }
            let mut n = 0;
            for p in QP {
                for u in QU {
                    for s in ["", "s"] {
                        let name = format!("{}{}{}", p, u, s);
                        let (_o, bad) = judge_name(&l, &name);
                        n += 1;
                        for (sg, dt) in bad {
                            out = out.viol(sg, format!("[{}] {}", text.replace('\n', "; "), dt));
                        }
                    }
                }
            }
            out.count("names_looked_up", n)
        }
    }
}
