//! C08 — the loaded database is a fixed point of its own definitions.

use crate::common::*;
use crate::props::c07::CURRENCY_JSON;
use engine::util::{hash64, Fams};
use engine::{CaseOut, Meta, Space};
use rink_core::ast::Expr;
use rink_core::{Context, Value};
use serde_json::json;

const GLOBAL: [&str; 9] = [
    "loads without errors or warnings and prints nothing",
    "two independent loads give identical databases",
    "quantities are one-to-one with dimensionalities",
    "every doc entry belongs to an existing name",
    "every category entry belongs to an existing name and has a display name",
    "no temporaries are left behind",
    "prefix table has no duplicates and every long prefix is also a unit",
    "queries and lookups between the two loads do not change what the overlay load produces",
    "every entry of every loaded file and of the currency snapshot is stored under its own name",
];

pub struct C08 {
    fams: Fams,
    names: Vec<String>,
    /// (name, definition expression, long?) of every prefix line of the bundled files, in file order
    prefix_defs: Vec<(String, Expr, bool)>,
    /// (name, right-hand side text) of every unit line of the bundled files (own line splitter)
    unit_texts: Vec<(String, String)>,
    /// how many of them come from definitions.units (the rest from currency.units)
    n_default_texts: usize,
    /// (name, expression text) of every quantity line of the bundled files
    quantity_texts: Vec<(String, String)>,
    /// (substance, index of the property in its block) for every property of every substance block
    substance_props: Vec<(String, usize)>,
    ctxs: [Lazy<Context>; 2],
}

fn load(config: u64) -> (Context, Result<(), String>, String) {
    let mut ctx = Context::new();
    ctx.use_humanize = false;
    let (res, printed) = capture_stdout(|| {
        let r = ctx.load_definitions(rink_core::DEFAULT_FILE.unwrap());
        ctx.load_date_file(rink_core::DATES_FILE.unwrap());
        match (r, config) {
            (Ok(()), 1) => ctx.load_currency(CURRENCY_JSON, rink_core::CURRENCY_FILE.unwrap()),
            (r, _) => r,
        }
    });
    (ctx, res, printed)
}

impl C08 {
    pub fn new(_tier: &str) -> C08 {
        let (ctx, _, _) = load(1);
        let mut names: Vec<String> = ctx.registry.units.keys().cloned().collect();
        names.extend(ctx.registry.definitions.keys().cloned());
        names.sort();
        names.dedup();
        let mut fams = Fams::default();
        fams.add("whole-database checks", vec![2, GLOBAL.len() as u64]);
        fams.add("per-definition fixed point", vec![2, names.len() as u64]);
        let mut prefix_defs = vec![];
        for text in [rink_core::DEFAULT_FILE.unwrap(), rink_core::CURRENCY_FILE.unwrap()] {
            for e in rink_core::loader::gnu_units::parse_str(text).defs {
                if let rink_core::ast::Def::Prefix { ref expr, is_long } = *e.def {
                    prefix_defs.push((e.name.clone(), expr.0.clone(), is_long));
                }
            }
        }
        fams.add("per-prefix fixed point", vec![2, prefix_defs.len() as u64]);
        let mut unit_texts = unit_lines(rink_core::DEFAULT_FILE.unwrap());
        let n_default_texts = unit_texts.len();
        unit_texts.extend(unit_lines(rink_core::CURRENCY_FILE.unwrap()));
        fams.add("definition text read by the query parser", vec![2, unit_texts.len() as u64]);
        let mut quantity_texts = quantity_lines(rink_core::DEFAULT_FILE.unwrap());
        quantity_texts.extend(quantity_lines(rink_core::CURRENCY_FILE.unwrap()));
        fams.add("quantity definitions evaluated by an own dimensional evaluator", vec![2, quantity_texts.len() as u64]);
        let mut substance_props = vec![];
        for text in [rink_core::DEFAULT_FILE.unwrap(), rink_core::CURRENCY_FILE.unwrap()] {
            for e in rink_core::loader::gnu_units::parse_str(text).defs {
                if let rink_core::ast::Def::Substance { ref properties, .. } = *e.def {
                    for i in 0..properties.len() {
                        substance_props.push((e.name.clone(), i));
                    }
                }
            }
        }
        fams.add("substance properties re-evaluated with the block's earlier names bound by the harness", vec![2, substance_props.len() as u64]);
        C08 { fams, names, prefix_defs, unit_texts, n_default_texts, quantity_texts, substance_props, ctxs: [Lazy::new(), Lazy::new()] }
    }
}

/// Own line splitter for the definitions format: (name, right-hand side text) of every plain unit
/// line (no base units, prefixes, quantities, substances, directives), continuation lines joined
/// and comments removed.  Only the *expression* is left to a parser - and to a different one than
/// the loader's (the query parser).
fn unit_lines(text: &str) -> Vec<(String, String)> {
    let mut logical: Vec<String> = vec![];
    let mut cur = String::new();
    for raw in text.lines() {
        let line = match raw.find('#') {
            Some(i) if !raw[..i].contains('"') => &raw[..i],
            _ => raw,
        };
        if let Some(l) = line.trim_end().strip_suffix('\\') {
            cur.push_str(l);
            cur.push(' ');
            continue;
        }
        cur.push_str(line);
        logical.push(std::mem::take(&mut cur));
    }
    let mut out = vec![];
    let mut in_block = false;
    for l in logical {
        let t = l.trim();
        if in_block {
            if t.starts_with('}') {
                in_block = false;
            }
            continue;
        }
        if t.is_empty() || t.starts_with("??") || t.starts_with('!') {
            continue;
        }
        if t.ends_with('{') {
            in_block = true;
            continue;
        }
        let (name, rhs) = match t.split_once(|c: char| c == ' ' || c == '\t') {
            Some((n, r)) => (n.trim(), r.trim()),
            None => continue,
        };
        if name.starts_with('"') || name.ends_with('-') || rhs.starts_with('!') || rhs.starts_with('?') || rhs.contains('{') || rhs.is_empty() {
            continue;
        }
        out.push((name.to_string(), rhs.to_string()));
    }
    out
}

/// (name, expression text) of every quantity line `name ? expr` (own line splitter).
fn quantity_lines(text: &str) -> Vec<(String, String)> {
    let mut out = vec![];
    let mut in_block = false;
    for raw in text.lines() {
        let line = match raw.find('#') {
            Some(i) if !raw[..i].contains('"') => &raw[..i],
            _ => raw,
        };
        let t = line.trim();
        if in_block {
            if t.starts_with('}') {
                in_block = false;
            }
            continue;
        }
        if t.ends_with('{') {
            in_block = true;
            continue;
        }
        if t.starts_with("??") || t.starts_with('!') {
            continue;
        }
        if let Some((name, rhs)) = t.split_once(|c: char| c == ' ' || c == '\t') {
            if let Some(e) = rhs.trim().strip_prefix('?') {
                if !e.starts_with('?') {
                    out.push((name.trim().to_string(), e.trim().to_string()));
                }
            }
        }
    }
    out
}

/// Own dimensional evaluation of a quantity expression: names are quantities or base units
/// (short or long name), products add exponents, quotients subtract, integer powers multiply.
fn quantity_expr_dims(e: &Expr, q: &std::collections::BTreeMap<String, Dims>, r: &rink_core::loader::Registry) -> Result<Dims, String> {
    use rink_core::ast::{BinOpExpr, BinOpType};
    match e {
        Expr::Unit { name } => {
            if let Some(d) = q.get(name) {
                return Ok(d.clone());
            }
            let short = r.base_unit_long_names.iter().find(|(_, l)| *l == name).map(|(s, _)| s.clone()).unwrap_or_else(|| name.clone());
            if r.base_units.contains(&short[..]) {
                let mut d = Dims::new();
                d.insert(short, 1);
                return Ok(d);
            }
            Err(format!("`{}` is neither a quantity nor a base unit", name))
        }
        Expr::Const { value } => {
            if numeric_to_rat(value) == Some(rat(1, 1)) {
                Ok(Dims::new())
            } else {
                Err("constant other than 1".into())
            }
        }
        Expr::Mul { exprs } => {
            let mut d = Dims::new();
            for x in exprs {
                d = dims_mul(&d, &quantity_expr_dims(x, q, r)?, 1);
            }
            Ok(d)
        }
        Expr::BinOp(BinOpExpr { op: BinOpType::Frac, left, right }) => Ok(dims_mul(&quantity_expr_dims(left, q, r)?, &quantity_expr_dims(right, q, r)?, -1)),
        Expr::BinOp(BinOpExpr { op: BinOpType::Pow, left, right }) => {
            let k = match &**right {
                Expr::Const { value } => numeric_to_rat(value).filter(|v| v.is_integer()).and_then(|v| num_traits::ToPrimitive::to_i64(v.numer())),
                Expr::UnaryOp(u) => match (&u.op, &*u.expr) {
                    (rink_core::ast::UnaryOpType::Negative, Expr::Const { value }) => numeric_to_rat(value).filter(|v| v.is_integer()).and_then(|v| num_traits::ToPrimitive::to_i64(v.numer())).map(|k| -k),
                    _ => None,
                },
                _ => None,
            };
            match k {
                Some(k) => Ok(dims_pow(&quantity_expr_dims(left, q, r)?, k)),
                None => Err("exponent is not an integer literal".into()),
            }
        }
        other => Err(format!("unsupported form {}", other)),
    }
}

/// `e` with every bare name that is bound in `temps` replaced by its value (constant x base units).
fn substitute(e: &Expr, temps: &std::collections::BTreeMap<String, rink_core::types::Number>) -> Expr {
    use rink_core::ast::{BinOpExpr, UnaryOpExpr};
    match e {
        Expr::Unit { name } => match temps.get(name) {
            Some(n) => {
                let mut parts = vec![Expr::new_const(n.value.clone())];
                for (b, p) in n.unit.iter() {
                    parts.push(Expr::new_pow(Expr::new_unit(b.to_string()), Expr::new_const(rink_core::types::Numeric::from(*p))));
                }
                Expr::new_mul(parts)
            }
            None => e.clone(),
        },
        Expr::BinOp(BinOpExpr { op, left, right }) => Expr::new_bin(*op, substitute(left, temps), substitute(right, temps)),
        Expr::UnaryOp(UnaryOpExpr { op, expr }) => Expr::new_unary(op.clone(), substitute(expr, temps)),
        Expr::Mul { exprs } => Expr::new_mul(exprs.iter().map(|x| substitute(x, temps)).collect()),
        Expr::Call { func, args } => Expr::new_call(*func, args.iter().map(|x| substitute(x, temps)).collect()),
        Expr::Of { property, expr } => Expr::new_of(property, substitute(expr, temps)),
        other => other.clone(),
    }
}

fn cfg_name(c: u64) -> &'static str {
    if c == 0 {
        "bundled"
    } else {
        "bundled+currency"
    }
}

impl Space for C08 {
    fn meta(&self) -> Meta {
        Meta {
            id: "C08",
            level: "exploration",
            rule: "every name of the loaded registry (all units and all stored definitions), in both configurations (bundled definitions; bundled + currency.units + currency snapshot): the stored value equals Context::eval of the stored definition, its dimensionality uses declared base units only, alias chains end at a real definition; plus every plain unit line of the loaded files must be stored under its own name (an overlay entry whose name also reads as prefix + unit is still an entry); plus every prefix line of the bundled files (text re-read with rink's parser, evaluated by the runtime evaluator in the loaded context, compared with the prefix table and, for long prefixes, with the unit of the same name); plus every quantity line `name ? expr`: the stored dimensionality must be the one an own exponent-vector evaluation of the expression over the loaded quantity table gives; plus every property of every substance block re-evaluated with the block's earlier names bound by the harness from the stored values (the loader binds them through a scratch map); plus nine whole-database checks (every entry of the loaded files and of the snapshot stored under its name, silent error-free load with fd 1 captured, identical Debug dumps of two loads, quantity injectivity, doc/category ownership, no temporaries, prefix table, overlay loaded after the context has been queried). Non-trivial = the name exists in that configuration; distinct by (config, name/check)".into(),
            assumptions: vec!["`Debug` output of Registry shows every field (derive(Debug))".into()],
            exhaustive: true,
            extra: json!({"families": self.fams.summary(), "whole_database_checks": GLOBAL}),
        }
    }
    fn len(&self) -> u64 {
        self.fams.total()
    }
    fn describe(&self, idx: u64) -> String {
        let (f, d) = self.fams.locate(idx);
        if f == 0 {
            format!("{}: {}", cfg_name(d[0]), GLOBAL[d[1] as usize])
        } else if f == 5 {
            let (n, i) = &self.substance_props[d[1] as usize];
            format!("{}: substance `{}` property #{}", cfg_name(d[0]), n, i)
        } else if f == 4 {
            let (n, r) = &self.quantity_texts[d[1] as usize];
            format!("{}: quantity `{} ? {}`", cfg_name(d[0]), n, r)
        } else if f == 3 {
            let (n, r) = &self.unit_texts[d[1] as usize];
            format!("{}: text `{} {}`", cfg_name(d[0]), n, r)
        } else if f == 2 {
            format!("{}: prefix `{}-`", cfg_name(d[0]), self.prefix_defs[d[1] as usize].0)
        } else {
            format!("{}: definition of `{}`", cfg_name(d[0]), self.names[d[1] as usize])
        }
    }
    fn sample_indices(&self) -> Vec<u64> {
        self.fams.starts()
    }
    fn chunk(&self) -> u64 {
        400
    }
    fn reset(&mut self) {
        self.ctxs[0].clear();
        self.ctxs[1].clear();
    }
    fn run(&mut self, idx: u64) -> CaseOut {
        let (f, d) = self.fams.locate(idx);
        let c = d[0];
        let key = hash64(&self.describe(idx));
        if f == 0 {
            let mut out = CaseOut::ok("whole-database check").key(key);
            let (ctx, res, printed) = load(c);
            let r = &ctx.registry;
            match d[1] {
                0 => {
                    if let Err(e) = res {
                        out = out.viol("bundled data loads with errors", engine::util::clip(&e, 600));
                    }
                    if !printed.trim().is_empty() {
                        out = out.viol("bundled data prints complaints while loading", engine::util::clip(&printed, 600));
                    }
                }
                1 => {
                    let (ctx2, _, _) = load(c);
                    let (a, b) = (format!("{:?}", ctx.registry), format!("{:?}", ctx2.registry));
                    if a != b {
                        out = out.viol("two loads differ", format!("Debug dumps differ ({} vs {} bytes)", a.len(), b.len()));
                    }
                    return out.count("dump_bytes", a.len() as u64);
                }
                2 => {
                    let mut seen = std::collections::BTreeMap::new();
                    for (dims, name) in &r.quantities {
                        if let Some(prev) = seen.insert(name.clone(), dims.clone()) {
                            out = out.viol("quantity names two dimensionalities", format!("{}: {} and {}", name, prev, dims));
                        }
                        for (b, _) in dims.iter() {
                            if !r.base_units.contains(b) {
                                out = out.viol("quantity uses an undeclared base unit", format!("{}: {}", name, b));
                            }
                        }
                    }
                }
                3 => {
                    for k in r.docs.keys() {
                        let known = r.units.contains_key(k)
                            || r.base_units.contains(&k[..])
                            || r.prefixes.iter().any(|p| &p.0 == k)
                            || r.quantities.values().any(|q| q == k)
                            || r.substances.contains_key(k)
                            || r.category_names.contains_key(k);
                        if !known {
                            out = out.viol("orphan doc entry", k.clone());
                        }
                    }
                }
                4 => {
                    for (k, cat) in &r.categories {
                        let known = r.units.contains_key(k) || r.base_units.contains(&k[..]) || r.substances.contains_key(k);
                        if !known {
                            out = out.viol("orphan category entry", format!("{} in {}", k, cat));
                        }
                        if !r.category_names.contains_key(cat) {
                            out = out.viol("category without display name", format!("{} in {}", k, cat));
                        }
                    }
                }
                7 => {
                    // the CLI answers queries while the live currency data is still being fetched:
                    // the overlay then arrives on a context that has already been asked about it
                    if c == 0 {
                        return out;
                    }
                    let mut ctx2 = Context::new();
                    ctx2.use_humanize = false;
                    let r0 = ctx2.load_definitions(rink_core::DEFAULT_FILE.unwrap());
                    ctx2.load_date_file(rink_core::DATES_FILE.unwrap());
                    for q in ["3 USD", "USD", "1 EUR -> USD", "fin", "5 dollar", "bitcoin", "1 BTC", "cent", "$", "units for money", "3 m"] {
                        let _ = ctx2.lookup(q);
                        let _ = crate::common::eval_q(&ctx2, q);
                        let _ = ctx2.canonicalize(q);
                    }
                    let r1 = ctx2.load_currency(CURRENCY_JSON, rink_core::CURRENCY_FILE.unwrap());
                    if r0.is_err() || r1.is_err() {
                        out = out.viol("the currency overlay loads with errors after the context has been queried", engine::util::clip(&format!("{:?} {:?}", r0.err(), r1.err()), 500));
                    }
                    let (a, b) = (format!("{:?}", ctx.registry), format!("{:?}", ctx2.registry));
                    if a != b {
                        let at = a.bytes().zip(b.bytes()).position(|(x, y)| x != y).unwrap_or(a.len().min(b.len()));
                        let lo = at.saturating_sub(80);
                        out = out.viol("the database depends on queries made between the two loads", format!("...{}... versus ...{}...", engine::util::clip(&a[lo..], 200), engine::util::clip(&b[lo..], 200)));
                    }
                    for q in ["3 USD", "fin", "1 BTC -> USD"] {
                        let (x, y) = (crate::common::eval_q(&ctx, q).map(|r| r.to_string()).map_err(|e| e.to_string()), crate::common::eval_q(&ctx2, q).map(|r| r.to_string()).map_err(|e| e.to_string()));
                        if x != y {
                            out = out.viol("answers depend on queries made between the two loads", format!("`{}`: {:?} versus {:?}", q, x, y));
                        }
                    }
                }
                8 => {
                    use rink_core::ast::Def;
                    let mut entries = rink_core::loader::gnu_units::parse_str(rink_core::DEFAULT_FILE.unwrap()).defs;
                    if c == 1 {
                        entries.extend(rink_core::loader::gnu_units::parse_str(rink_core::CURRENCY_FILE.unwrap()).defs);
                        let live: Vec<rink_core::ast::DefEntry> = serde_json::from_str(CURRENCY_JSON).expect("the snapshot is a list of entries");
                        entries.extend(live);
                    }
                    let mut n = 0;
                    for e in &entries {
                        let name = &e.name;
                        let stored = match &*e.def {
                            Def::BaseUnit { .. } => r.base_units.contains(&name[..]),
                            Def::Prefix { .. } => r.prefixes.iter().any(|(p, _)| p == name),
                            Def::Unit { .. } => r.units.contains_key(name) || r.substances.contains_key(name),
                            Def::Quantity { .. } => r.quantities.values().any(|q| q == name) || r.definitions.contains_key(name),
                            Def::Substance { .. } => r.substances.contains_key(name),
                            _ => true,
                        };
                        n += 1;
                        if !stored {
                            out = out.viol("an entry of a loaded file is not stored under its name", format!("entry `{}` ({}) is missing from the database although the load reported nothing", name, cfg_name(c)));
                        }
                    }
                    out = out.count("entries_checked", n);
                }
                5 => {
                    let dbg = format!("{:?}", ctx);
                    if !dbg.contains("temporaries: {}") {
                        out = out.viol("temporaries left behind after loading", "Context Debug output does not show `temporaries: {}`");
                    }
                }
                _ => {
                    let mut seen = std::collections::BTreeSet::new();
                    for (p, _) in &r.prefixes {
                        if !seen.insert(p.clone()) {
                            out = out.viol("duplicate prefix", p.clone());
                        }
                    }
                }
            }
            return out;
        }
        if f == 5 {
            // Inside a substance block the names of earlier properties are bound: `name` to
            // input/output, `input_name` to the input when the output is 1, `output_name` to the
            // output when the input is 1, in this order (a later binding of the same name wins).
            // The harness binds them itself - from the *stored* earlier properties - by
            // substituting them into the property's expressions, and re-evaluates.
            let (sname, pi) = &self.substance_props[d[1] as usize];
            let ctx = self.ctxs[c as usize].get(|| load(c).0);
            let r = &ctx.registry;
            let mut out = CaseOut::ok("substance property fixed point").key(key);
            let stored = match r.substances.get(sname) {
                Some(s) => s,
                None => {
                    out.outcome = "substance not in this configuration".into();
                    return out;
                }
            };
            // the block as parsed (rink's parser; the evaluation below is what is being compared)
            let mut block = None;
            for text in [rink_core::DEFAULT_FILE.unwrap(), rink_core::CURRENCY_FILE.unwrap()] {
                for e in rink_core::loader::gnu_units::parse_str(text).defs {
                    if &e.name == sname {
                        if let rink_core::ast::Def::Substance { ref properties, .. } = *e.def {
                            block = Some(properties.iter().map(|p| (p.name.clone(), p.input.0.clone(), p.input_name.clone(), p.output.0.clone(), p.output_name.clone())).collect::<Vec<_>>());
                        }
                    }
                }
            }
            let block = match block {
                Some(b) => b,
                None => return out.viol("harness: substance block not found", sname.clone()),
            };
            let mut temps: std::collections::BTreeMap<String, rink_core::types::Number> = Default::default();
            for (name, _, iname, _, oname) in block.iter().take(*pi) {
                if let Some(sp) = stored.properties.properties.get(name) {
                    if let Some(ratio) = &sp.input / &sp.output {
                        temps.insert(name.clone(), ratio);
                    }
                    if sp.output == rink_core::types::Number::one() {
                        temps.insert(iname.clone(), sp.input.clone());
                    }
                    if sp.input == rink_core::types::Number::one() {
                        temps.insert(oname.clone(), sp.output.clone());
                    }
                }
            }
            let (name, input, _, output, _) = &block[*pi];
            let sp = match stored.properties.properties.get(name) {
                Some(p) => p,
                None => return out.viol("property of the bundled file is not stored", format!("{}.{}", sname, name)),
            };
            for (what, expr, have) in [("input", input, &sp.input), ("output", output, &sp.output)] {
                let bound = substitute(expr, &temps);
                match ctx.eval(&bound) {
                    Ok(Value::Number(n)) => {
                        let same = n == *have || (numeric_to_rat(&n.value).is_none() && n.unit == have.unit && (n.value.to_f64() - have.value.to_f64()).abs() <= 1e-12 * have.value.to_f64().abs());
                        if !same {
                            out = out.viol(
                                "stored substance property differs from what its definition evaluates to",
                                format!("{}.{} {}: `{}` evaluates to {:?} but {:?} is stored", sname, name, what, expr, n, have),
                            );
                        }
                    }
                    Ok(o) => out = out.viol("substance property is not a number", format!("{}.{} {} -> {:?}", sname, name, what, o)),
                    Err(e) => out.outcome = format!("substance property not evaluable by the harness ({})", err_kind(&e)),
                }
            }
            return out;
        }
        if f == 4 {
            // Each quantity names the dimensionality its own definition describes.  The loader
            // computes it with a separate evaluator (eval_quantity); here the text is re-read and
            // evaluated by the harness's exponent-vector algebra over the loaded quantity table.
            let (name, rhs) = &self.quantity_texts[d[1] as usize];
            let ctx = self.ctxs[c as usize].get(|| load(c).0);
            let r = &ctx.registry;
            let mut out = CaseOut::ok("quantity fixed point").key(key);
            if self.quantity_texts.iter().filter(|p| &p.0 == name).count() > 1 {
                out.outcome = "quantity defined more than once (unjudged)".into();
                return out;
            }
            let q: std::collections::BTreeMap<String, Dims> = r.quantities.iter().map(|(d, n)| (n.clone(), d.iter().map(|(k, v)| (k.to_string(), *v)).collect())).collect();
            let stored = match q.get(name) {
                Some(d) => d.clone(),
                None => {
                    if c == 0 && quantity_lines(rink_core::CURRENCY_FILE.unwrap()).iter().any(|p| &p.0 == name) {
                        out.outcome = "not in this configuration".into();
                        return out;
                    }
                    return out.viol("quantity of the bundled file is not in the quantity table", name.clone());
                }
            };
            let mut it = rink_core::loader::gnu_units::TokenIterator::new(rhs).peekable();
            let expr = rink_core::loader::gnu_units::parse_expr(&mut it);
            match quantity_expr_dims(&expr, &q, r) {
                Ok(want) => {
                    if want != stored {
                        out = out.viol(
                            "quantity's stored dimensionality differs from what its definition describes",
                            format!("`{} ? {}` describes {} but {} is stored", name, rhs, dims_str(&want), dims_str(&stored)),
                        );
                    }
                }
                Err(e) => out.outcome = format!("quantity definition not evaluable by the harness ({})", e),
            }
            return out;
        }
        if f == 3 {
            // The stored definition is what the loader's own parser made of the text; an error of
            // that parser is invisible to the fixed point above.  Here the text itself is read by
            // the query parser (another implementation of the same expression grammar).
            use rink_core::parsing::text_query;
            let (name, rhs) = &self.unit_texts[d[1] as usize];
            let ctx = self.ctxs[c as usize].get(|| load(c).0);
            let r = &ctx.registry;
            let mut out = CaseOut::ok("text agrees").key(key);
            if self.unit_texts.iter().filter(|p| &p.0 == name).count() > 1 {
                out.outcome = "name defined more than once (unjudged)".into();
                return out;
            }
            let stored = match r.units.get(name) {
                Some(v) => v,
                None => {
                    // every entry of a file that was loaded is stored under its own name
                    let loaded_here = (d[1] as usize) < self.n_default_texts || c == 1;
                    if loaded_here && !r.substances.contains_key(name) {
                        out.outcome = "entry of a loaded file is not stored".into();
                        return out.viol(
                            "an entry of a loaded file is not stored under its name",
                            format!("`{} {}`: no unit or substance `{}` in the database ({}), although the load reported nothing", name, rhs, name, cfg_name(c)),
                        );
                    }
                    out.outcome = "not a unit in this configuration (substance / file not loaded)".into();
                    return out;
                }
            };
            // lexical differences between the two grammars: characters that are part of a name in a
            // definitions file but operators or quotes in a query
            let lexical = rhs.chars().any(|ch| matches!(ch, '%' | '\'' | '"' | ',' | '$' | '_' | '=' | '<' | '>' | ';' | ':' | '&' | '~' | '@' | '[' | ']' | '\u{b0}'))
                || rhs.split(|ch: char| ch.is_whitespace() || "()/|^+*".contains(ch)).any(|w| w.chars().skip(1).any(|ch| ch == '-') && !w.chars().next().unwrap().is_ascii_digit() && !w.starts_with('.'));
            let mut it = text_query::TokenIterator::new(rhs).peekable();
            let expr = text_query::parse_expr(&mut it);
            let rest = it.peek().cloned();
            if !matches!(rest, Some(text_query::Token::Eof) | None) {
                out.outcome = "query parser leaves input (unjudged)".into();
                return out;
            }
            match ctx.eval(&expr) {
                Ok(Value::Number(n)) => {
                    if n != *stored {
                        // `a * b / c` groups differently by design: explicit `*` binds like juxtaposition in a
                        // definitions file and like `/` in a query
                        let star = rhs.contains('*') && rhs.contains('/');
                        if lexical || star {
                            out.outcome = "differs where the two grammars differ by design (unjudged)".into();
                        } else {
                            out = out.viol(
                                "stored value differs from what the definition text evaluates to",
                                format!("`{} {}`: the text evaluates to {:?} but {:?} is stored (stored definition: {})", name, rhs, n, stored, r.definitions.get(name).map(|e| e.to_string()).unwrap_or_default()),
                            );
                        }
                    }
                }
                Ok(_) => out.outcome = "text is not a number for the query evaluator (unjudged)".into(),
                Err(_) => out.outcome = "text not evaluable as a query (unjudged)".into(),
            }
            return out;
        }
        if f == 2 {
            // The registry keeps no text for prefixes, so the text is re-read from the bundled file
            // (rink's own parser) and evaluated by the runtime evaluator in the loaded context; the
            // loader computed the stored value with its own separate prefix evaluator.
            let (name, expr, is_long) = &self.prefix_defs[d[1] as usize];
            let ctx = self.ctxs[c as usize].get(|| load(c).0);
            let r = &ctx.registry;
            let mut out = CaseOut::ok("prefix fixed point").key(key);
            if self.prefix_defs.iter().filter(|p| &p.0 == name).count() > 1 {
                out.outcome = "prefix defined more than once (unjudged)".into();
                return out;
            }
            let stored = match r.prefixes.iter().find(|p| &p.0 == name) {
                Some(p) => p.1.clone(),
                None => return out.viol("prefix of the bundled file is not in the prefix table", name.clone()),
            };
            match ctx.eval(expr) {
                Ok(Value::Number(n)) => {
                    if !n.unit.is_empty() {
                        out = out.viol("prefix definition is not dimensionless", format!("{}- {}", name, expr));
                    } else if n.value != stored {
                        out = out.viol(
                            "stored prefix value differs from its definition",
                            format!("{}- {} evaluates to {:?} but {:?} is stored", name, expr, n.value, stored),
                        );
                    }
                    if *is_long {
                        match r.units.get(name) {
                            Some(u) if u.unit.is_empty() && u.value == n.value => {}
                            other => {
                                out = out.viol(
                                    "long prefix as a unit differs from its definition",
                                    format!("{}- {} evaluates to {:?} but the unit `{}` is {:?}", name, expr, n.value, name, other),
                                )
                            }
                        }
                    }
                }
                Ok(o) => out = out.viol("prefix definition is not a number", format!("{}- {} -> {:?}", name, expr, o)),
                Err(e) => {
                    // a short prefix used by name is not a unit: the runtime evaluator cannot see it
                    out.outcome = format!("prefix definition not evaluable at run time ({})", err_kind(&e));
                }
            }
            return out;
        }
        let name = self.names[d[1] as usize].clone();
        let ctx = self.ctxs[c as usize].get(|| load(c).0);
        let r = &ctx.registry;
        let stored = r.units.get(&name);
        let def = r.definitions.get(&name);
        if stored.is_none() && def.is_none() {
            return CaseOut::ok("not in this configuration");
        }
        let mut out = CaseOut::ok("").key(key);
        let mut outcome = "definition only (quantity)";
        if let Some(v) = stored {
            outcome = "stored value without definition text (prefix)";
            for (b, e) in v.unit.iter() {
                if !r.base_units.contains(b) {
                    out = out.viol("dimensionality uses an undeclared base unit", format!("{}: {}^{}", name, b, e));
                }
                if *e == 0 {
                    out = out.viol("stored dimensionality carries a zero exponent", format!("{}: {}", name, b));
                }
            }
            if let Some(def) = def {
                outcome = "fixed point";
                match ctx.eval(def) {
                    Ok(Value::Number(n)) => {
                        if n != *v {
                            out = out.viol(
                                "stored value differs from its definition",
                                format!("{} = {} evaluates to {:?} but {:?} is stored", name, def, n, v),
                            );
                        }
                    }
                    Ok(o) => out = out.viol("definition is not a number", format!("{} = {} -> {:?}", name, def, o)),
                    Err(e) => out = out.viol("definition does not evaluate", format!("{} = {} -> {}", name, def, e)),
                }
                // alias chain ends at a real definition
                if let Expr::Unit { .. } = def {
                    outcome = "fixed point (alias)";
                    let mut cur = name.clone();
                    let mut steps = 0;
                    loop {
                        steps += 1;
                        if steps > r.units.len() + 2 {
                            out = out.viol("alias chain does not end", name.clone());
                            break;
                        }
                        if r.base_units.contains(&cur[..]) {
                            break;
                        }
                        match r.definitions.get(&cur) {
                            Some(Expr::Unit { name: next }) => cur = next.clone(),
                            Some(_) => break,
                            None => {
                                if ctx.lookup(&cur).is_none() {
                                    out = out.viol("alias chain ends at nothing", format!("{} -> ... -> {}", name, cur));
                                }
                                break;
                            }
                        }
                    }
                }
            }
        }
        out.outcome = outcome.to_string();
        out
    }
}
