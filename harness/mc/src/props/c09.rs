//! C09 — unit lists and duration breakdowns decompose without loss.

use crate::common::*;
use crate::regdump::{self, Dump};
use engine::util::{hash64, Fams};
use engine::{CaseOut, Meta, Space};
use num_traits::{Signed, Zero};
use rink_core::output::{NumberParts, QueryReply};
use rink_core::Context;
use serde_json::json;

#[derive(Clone, Debug)]
struct LU {
    name: String,
    value: Rat,
}

struct Group {
    dims: String,
    units: Vec<LU>,
}

pub struct C09 {
    fams: Fams,
    groups: Vec<Group>,
    big: Vec<usize>,
    vals: Vec<(String, Rat)>,
    durs: Vec<(String, Rat)>,
    time_units: Vec<LU>,
    long_lens: Vec<u64>,
    ctx: Lazy<Context>,
}

fn pick(dump: &Dump, dims: &str, names: Vec<(String, Rat)>) -> Vec<LU> {
    // names sorted by value; choose largest, smallest, median, second smallest, + prefixed + plural of the median
    let n = names.len();
    let mut idxs = vec![n - 1, 0, n / 2, 1.min(n - 1)];
    idxs.dedup();
    let mut out: Vec<LU> = vec![];
    for i in idxs {
        if !out.iter().any(|u| u.name == names[i].0) {
            out.push(LU { name: names[i].0.clone(), value: names[i].1.clone() });
        }
    }
    let med = &names[n / 2];
    for cand in [format!("kilo{}", med.0), format!("{}s", med.0)] {
        let r = dump.resolve(&cand);
        if r.len() == 1 && dims_str(&r[0].dims) == dims && regdump::addressable(&cand) {
            if let Some(v) = &r[0].value {
                if v.is_positive() && !out.iter().any(|u| u.name == cand) {
                    out.push(LU { name: cand, value: v.clone() });
                }
            }
        }
    }
    out
}

impl C09 {
    pub fn new(tier: &str) -> C09 {
        let ctx = fresh_ctx();
        let dump = regdump::dump(&ctx);
        let mut by: std::collections::BTreeMap<String, Vec<(String, Rat)>> = Default::default();
        for u in dump.units.values() {
            if let Some(v) = &u.value {
                if v.is_positive() && regdump::addressable(&u.name) && !u.dims.is_empty() {
                    by.entry(dims_str(&u.dims)).or_default().push((u.name.clone(), v.clone()));
                }
            }
        }
        let mut groups = vec![];
        for (d, mut v) in by {
            if v.len() < 2 {
                continue;
            }
            v.sort_by(|a, b| a.1.cmp(&b.1).then(a.0.cmp(&b.0)));
            let units = pick(&dump, &d, v);
            groups.push(Group { dims: d, units });
        }
        let big: Vec<usize> = groups
            .iter()
            .enumerate()
            .filter(|(_, g)| ["s^1", "m^1", "kg^1", "m^3"].contains(&g.dims.as_str()))
            .map(|(i, _)| i)
            .collect();
        let p10 = |e: i64| pow_rat(&rat(10, 1), e).unwrap();
        let mut vals: Vec<(String, Rat)> = vec![
            ("0".into(), rat(0, 1)),
            ("1".into(), rat(1, 1)),
            ("(-1)".into(), rat(-1, 1)),
            ("1|3".into(), rat(1, 3)),
            ("(-1|3)".into(), rat(-1, 3)),
            ("7.5".into(), rat(15, 2)),
            ("(-7.5)".into(), rat(-15, 2)),
            ("1e-9".into(), p10(-9)),
            ("(-1e-9)".into(), -p10(-9)),
            ("123456789.123".into(), Rat::new(123456789123i64.into(), 1000.into())),
            ("(-123456789.123)".into(), -Rat::new(123456789123i64.into(), 1000.into())),
            ("1e40".into(), p10(40)),
            ("(-1e40)".into(), -p10(40)),
        ];
        if tier != "thorough" {
            vals.truncate(11);
        }
        let sec = |s: &str| parse_literal(s).unwrap();
        let mut durs: Vec<(String, Rat)> = vec![];
        for s in [
            "0", "0.000000001", "0.5", "59.999", "60", "3599", "3600", "86399.999999999", "86400", "604800",
            "31556925.9747", "31556926", "1e12", "123456789.987654321", "1e-12", "90061.5",
        ] {
            durs.push((format!("{} s", s), sec(s)));
            durs.push((format!("-{} s", s), -sec(s)));
        }
        // just below / at / just above whole multiples of every breakdown unit, including units whose
        // value in seconds is not an integer (year = 31556925.9747 s): a quotient taken on truncated
        // operands is off by one exactly there
        for name in ["year", "week", "day", "hour", "minute"] {
            let uv = dump.units.get(name).and_then(|u| u.value.clone()).unwrap();
            let f = &uv - uv.floor();
            for k in [1i64, 2, 10, 1000] {
                let mut ds = vec![rat(0, 1), pow_rat(&rat(10, 1), -9).unwrap(), rat(1, 2)];
                if !f.is_zero() {
                    ds.push(&f / rat(2, 1));
                    ds.push(f.clone());
                }
                for dl in ds {
                    for sg in [-1i64, 1] {
                        let v = rat(k, 1) * &uv + rat(sg, 1) * &dl;
                        durs.push((format!("{} s", rat_text(&v)), v.clone()));
                        if dl.is_zero() {
                            break;
                        }
                    }
                }
            }
        }
        durs.push(("1|3 s".into(), rat(1, 3)));
        durs.push(("3 hour".into(), rat(10800, 1)));
        durs.push(("1.5 day + 1 ms".into(), rat(129600, 1) + rat(1, 1000)));
        let tu = |n: &str| LU { name: n.to_string(), value: dump.units.get(n).and_then(|u| u.value.clone()).unwrap_or_else(|| panic!("{} missing", n)) };
        let time_units = vec![tu("year"), tu("week"), tu("day"), tu("hour"), tu("minute"), tu("second")];
        let long_lens: Vec<u64> = if tier == "thorough" { vec![4, 5, 6] } else { vec![4] };
        let mut fams = Fams::default();
        let g = groups.len() as u64;
        fams.add("lists of 2", vec![g, vals.len() as u64, 6, 6]);
        fams.add("lists of 3", vec![g, vals.len() as u64, 6, 6, 6]);
        for l in &long_lens {
            let mut dims = vec![big.len() as u64, 3];
            dims.extend(std::iter::repeat(6).take(*l as usize));
            fams.add(&format!("lists of {} (time/length/mass/volume)", l), dims);
        }
        fams.add("non-conformable member or value", vec![g, g, 4, NONCONF_VALS.len() as u64]);
        fams.add("near multiples: (k +- e) a -> a;b", vec![g, 6, 6, NEAR_K.len() as u64, 5]);
        fams.add("near multiples in the second stage: 1 a + (k +- e) b -> a;b;c", vec![big.len() as u64, 6, 6, 6, NEAR_K.len() as u64, 5]);
        fams.add("automatic duration breakdown", vec![durs.len() as u64]);
        // one Context: a time value, then a further definitions file that defines one of the breakdown
        // units again, then time values: the breakdown obeys the law for the units as they are now
        fams.add("duration breakdown after a further load redefines a breakdown unit", vec![RELOADS.len() as u64, RELOAD_DURS.len() as u64, 2]);
        // values that are floats (roots, fractional powers): the same law up to rounding
        fams.add("float values", vec![FLOAT_LISTS.len() as u64]);
        C09 { fams, groups, big, vals, durs, time_units, long_lens, ctx: Lazy::new() }
    }

    /// (query, Some((value in base units, units))) or refusal expectation
    fn plan(&self, idx: u64) -> Option<(String, Option<(Rat, Vec<LU>)>, bool)> {
        let (f, d) = self.fams.locate(idx);
        let nlong = self.long_lens.len();
        if f < 2 + nlong {
            let (g, vi, picks): (&Group, usize, &[u64]) = if f < 2 {
                (&self.groups[d[0] as usize], d[1] as usize, &d[2..])
            } else {
                (&self.groups[self.big[d[0] as usize]], [1usize, 4, 9][d[1] as usize], &d[2..])
            };
            let mut us = vec![];
            for p in picks {
                us.push(g.units.get(*p as usize)?.clone());
            }
            let (vt, v) = &self.vals[vi];
            let q = format!(
                "{} {} -> {}",
                vt,
                regdump::q(&us[0].name),
                us.iter().map(|u| regdump::q(&u.name)).collect::<Vec<_>>().join(";")
            );
            let total = v * &us[0].value;
            return Some((q, Some((total, us)), false));
        }
        if f == 2 + nlong {
            if d[0] == d[1] {
                return None;
            }
            let (a, b) = (&self.groups[d[0] as usize], &self.groups[d[1] as usize]);
            let (a0, a1, b0) = (regdump::q(&a.units[0].name), regdump::q(&a.units[1].name), regdump::q(&b.units[0].name));
            // the value's magnitude plays no part in conformance: zero of the wrong dimension is refused too
            let v = NONCONF_VALS[d[3] as usize];
            let q = match d[2] {
                0 => format!("{} {} -> {};{};{}", v, a0, b0, a1, a0),
                1 => format!("{} {} -> {};{};{}", v, a0, a0, b0, a1),
                2 => format!("{} {} -> {};{};{}", v, a0, a0, a1, b0),
                _ => format!("{} {} -> {};{}", v, b0, a0, a1),
            };
            return Some((q, None, false));
        }
        if f == 3 + nlong || f == 4 + nlong {
            let three = f == 4 + nlong;
            let g = if three { &self.groups[self.big[d[0] as usize]] } else { &self.groups[d[0] as usize] };
            let np = if three { 3 } else { 2 };
            let mut us = vec![];
            for p in &d[1..1 + np] {
                us.push(g.units.get(*p as usize)?.clone());
            }
            let k = rat(NEAR_K[d[1 + np] as usize], 1);
            // the unit whose multiple is approached: the first (lists of 2) or the second (lists of 3)
            let a = if three { &us[1] } else { &us[0] };
            let fr = &a.value - a.value.floor();
            let e1 = if fr.is_zero() { rat(1, 1000) } else { &fr / (rat(2, 1) * &a.value) };
            let e2 = pow_rat(&rat(10, 1), -12).unwrap();
            let m = match d[2 + np] {
                0 => k.clone(),
                1 => &k - &e1,
                2 => &k + &e1,
                3 => &k - &e2,
                _ => &k + &e2,
            };
            let list = us.iter().map(|u| regdump::q(&u.name)).collect::<Vec<_>>().join(";");
            let (q, total) = if three {
                (
                    format!("1 {} + {} {} -> {}", regdump::q(&us[0].name), rat_text(&m), regdump::q(&a.name), list),
                    &us[0].value + &m * &a.value,
                )
            } else {
                (format!("{} {} -> {}", rat_text(&m), regdump::q(&a.name), list), &m * &a.value)
            };
            return Some((q, Some((total, us)), false));
        }
        let (t, v) = &self.durs[d[0] as usize];
        Some((t.clone(), Some((v.clone(), self.time_units.clone())), true))
    }
}

const NEAR_K: [i64; 3] = [1, 3, 1000];
/// Lists for values that are floats: the law holds up to rounding, and the whole parts are whole.
const FLOAT_LISTS: [&str; 18] = [
    "sqrt(2 hour^2) -> hour;min", "sqrt(10) hour -> hour;min;s", "sqrt(2) day -> day;hour;min;s", "2^0.5 mile -> mile;ft;inch", "-sqrt(3 hour^2) -> hour;min;s", "sqrt(7) kg -> kg;g",
    "sqrt(2) week -> day;hour", "10^0.5 m -> m;cm;mm", "sqrt(5) hour -> min;hour", "exp(1) year -> year;day;hour", "sqrt(2) s -> hour;min;s", "1e30^0.5 s -> year;day",
    // whole parts beyond 2^63 and 2^64 (a quotient taken through a machine integer saturates there)
    "exp(100) m -> km;m", "sqrt(1e60) s -> hour;min;s", "-exp(50) s -> hour;s", "sqrt(1e40) m -> mile;ft", "2^63.5 s -> s;ms", "exp(44) s -> min;s",
];
const RELOADS: [&str; 5] = ["week 5 day\n", "year 365 day\n", "day 25 hour\n", "hour 50 minute\n", "minute 100 second\n"];
const RELOAD_DURS: [&str; 6] = ["12 day", "400 day", "90061.5 s", "-36 hour", "1|3 year", "3e9 s"];
const NONCONF_VALS: [&str; 3] = ["3", "0", "(5 - 5)"];

fn rat_text(r: &Rat) -> String {
    let a = r.abs();
    let t = if a.is_integer() { format!("{}", a.numer()) } else { format!("({}|{})", a.numer(), a.denom()) };
    if r.is_negative() {
        format!("(-{})", t)
    } else {
        t
    }
}

fn part_value(p: &NumberParts) -> Result<Rat, String> {
    let raw = p.raw_value.as_ref().ok_or("part without raw value")?;
    numeric_to_rat(&raw.value).ok_or_else(|| "float part".to_string())
}

fn law(total: &Rat, units: &[LU], parts: &[Rat]) -> Result<(), (String, String)> {
    if parts.len() != units.len() {
        return Err(("wrong number of parts".into(), format!("{} parts for {} units", parts.len(), units.len())));
    }
    let mut sum = rat(0, 1);
    let n = parts.len();
    for (i, (p, u)) in parts.iter().zip(units).enumerate() {
        sum += p * &u.value;
        if i + 1 < n && !p.is_integer() {
            return Err(("non-final part is not an integer".into(), format!("part {} ({}) = {}", i, u.name, p)));
        }
        if !p.is_zero() && !total.is_zero() && p.is_negative() != total.is_negative() {
            return Err(("part has the opposite sign".into(), format!("part {} ({}) = {} for value {}", i, u.name, p, total)));
        }
        if total.is_zero() && !p.is_zero() {
            return Err(("non-zero part for a zero value".into(), format!("part {} ({}) = {}", i, u.name, p)));
        }
        if i + 1 < n {
            let rem = total - &sum;
            if rem.abs() >= u.value.abs() {
                return Err((
                    "remainder not smaller than the unit just used".into(),
                    format!("after {} the remainder is {} but the unit is {}", u.name, rem, u.value),
                ));
            }
        }
    }
    if &sum != total {
        return Err(("parts do not sum to the value".into(), format!("sum {} vs value {}", sum, total)));
    }
    Ok(())
}

impl Space for C09 {
    fn meta(&self) -> Meta {
        Meta {
            id: "C09",
            level: "exploration",
            rule: "for every dimensionality with >= 2 positive exact units, up to 6 units (largest, smallest, median, second smallest, a kilo-prefixed and a plural spelling): all ordered lists of length 2 and 3 with repetition x 11-13 rational values (0, +-1, +-1/3, +-7.5, +-1e-9, +-123456789.123, +-1e40); lists of length 4 (thorough 4-6) for time/length/mass/volume; every position of a non-conformable member and a non-conformable value, for the values 3, 0 and (5 - 5); time values for the automatic year/week/day/hour/minute/second breakdown (67 fixed ones plus k x unit +- {0, 1e-9, 1/2, frac/2, frac} s for k in {1,2,10,1000} and every breakdown unit); near-multiple values (k +- e) a -> a;b for every group and ordered pair, k in {1,3,1000}, e in {half the fractional part of a's base-unit value, 1e-12}, and the same in the second stage of 3-unit lists (a quotient computed on truncated operands is off by one exactly there). Plus histories on one context: (optionally a time query,) a further load that defines year/week/day/hour/minute again, then 6 time values, judged with the unit values the context has now. Plus 18 lists for float values (roots, fractional powers, exp; six with whole parts beyond 2^63), judged by the same clauses up to a relative 1e-9. Oracle: the statement's four clauses on raw part values with unit values from the registry dump. Non-trivial = a law was judged; distinct by query text".into(),
            assumptions: vec![
                "negative-valued units (delisle_absolute, wire gauges g00..) are excluded: the sign clause is ill-posed for them".into(),
                "any error kind counts as a refusal".into(),
            ],
            exhaustive: true,
            extra: json!({"families": self.fams.summary(), "dimensionalities": self.groups.len()}),
        }
    }
    fn len(&self) -> u64 {
        self.fams.total()
    }
    fn describe(&self, idx: u64) -> String {
        let (f, d) = self.fams.locate(idx);
        if f == self.fams.fams.len() - 1 {
            return FLOAT_LISTS[d[0] as usize].to_string();
        }
        if f == self.fams.fams.len() - 2 {
            return format!("one context: {}load `{}`, then `{}`", if d[2] == 1 { "a time query, " } else { "" }, RELOADS[d[0] as usize].trim(), RELOAD_DURS[d[1] as usize]);
        }
        match self.plan(idx) {
            Some((q, _, _)) => q,
            None => "(skipped: fewer units in this group / same group)".into(),
        }
    }
    fn sample_indices(&self) -> Vec<u64> {
        self.fams.starts()
    }
    fn chunk(&self) -> u64 {
        3000
    }
    fn reset(&mut self) {
        self.ctx.clear();
    }
    fn run(&mut self, idx: u64) -> CaseOut {
        {
            let (f, d) = self.fams.locate(idx);
            if f == self.fams.fams.len() - 1 {
                let q = FLOAT_LISTS[d[0] as usize];
                let ctx = self.ctx.get(fresh_ctx);
                let mut out = CaseOut::ok("float value").key(hash64(&("float", q)));
                let (lhs, list) = q.split_once(" -> ").unwrap();
                let total = match eval_q(ctx, lhs) {
                    Ok(QueryReply::Number(p)) => p.raw_value.map(|r| r.value.to_f64()),
                    Ok(QueryReply::Duration(dr)) => dr.raw.raw_value.map(|r| r.value.to_f64()),
                    _ => None,
                };
                let total = match total {
                    Some(t) => t,
                    None => return out.viol("harness: the float value does not evaluate", q.to_string()),
                };
                let units: Vec<f64> = list.split(';').map(|n| ctx.lookup(n.trim()).map(|u| u.value.to_f64()).unwrap_or(f64::NAN)).collect();
                match eval_q(ctx, q) {
                    Ok(QueryReply::UnitList(l)) => {
                        let parts: Vec<f64> = l.list.iter().map(|p| p.raw_value.as_ref().map(|r| r.value.to_f64()).unwrap_or(f64::NAN)).collect();
                        let bad = |sig: &str, det: String| (sig.to_string(), format!("`{}`: {}; parts {:?}", q, det, parts));
                        let mut errs = vec![];
                        if parts.len() != units.len() {
                            errs.push(bad("wrong number of parts", format!("{} parts for {} units", parts.len(), units.len())));
                        } else {
                            let mut sum = 0.0;
                            for (i, (p, u)) in parts.iter().zip(&units).enumerate() {
                                sum += p * u;
                                if i + 1 < parts.len() && p.fract() != 0.0 {
                                    errs.push(bad("non-final part is not an integer", format!("part {} = {}", i, p)));
                                }
                                if *p != 0.0 && (*p < 0.0) != (total < 0.0) {
                                    errs.push(bad("part has the opposite sign", format!("part {} = {} for value {}", i, p, total)));
                                }
                                if i + 1 < parts.len() && (total - sum).abs() >= u.abs() * (1.0 + 1e-9) {
                                    errs.push(bad("remainder not smaller than the unit just used", format!("after part {} the remainder is {} but the unit is {}", i, total - sum, u)));
                                }
                            }
                            if !((sum - total).abs() <= 1e-9 * total.abs()) {
                                errs.push(bad("parts do not sum to the value", format!("sum {} vs value {}", sum, total)));
                            }
                        }
                        for (sg, dt) in errs {
                            out = out.viol(format!("{} (float value)", sg), dt);
                        }
                    }
                    Ok(o) => out = out.viol("unit list not answered as a list", format!("`{}` -> {}", q, reply_kind(&o))),
                    Err(e) => out = out.viol("conformable unit list refused", format!("`{}`: {}", q, e)),
                }
                return out;
            }
            if f == self.fams.fams.len() - 2 {
                let (reload, q) = (RELOADS[d[0] as usize], RELOAD_DURS[d[1] as usize]);
                let mut ctx = fresh_ctx();
                if d[2] == 1 {
                    // ask once before the load (anything the breakdown remembers is filled now)
                    let _ = eval_q(&ctx, q);
                }
                let _ = ctx.load_definitions(reload);
                let mut out = CaseOut::ok("duration breakdown after a load").key(hash64(&("reload", reload, q, d[2])));
                let names = ["year", "week", "day", "hour", "minute", "second"];
                let units: Option<Vec<LU>> = names.iter().map(|n| ctx.lookup(n).and_then(|v| numeric_to_rat(&v.value)).map(|v| LU { name: n.to_string(), value: v })).collect();
                let units = match units {
                    Some(u) => u,
                    None => return out.viol("harness: breakdown unit not exact after the load", reload.to_string()),
                };
                match eval_q(&ctx, q) {
                    Ok(QueryReply::Duration(dr)) => {
                        let total = dr.raw.raw_value.as_ref().and_then(|r| numeric_to_rat(&r.value));
                        let parts: Result<Vec<Rat>, String> = [&dr.years, &dr.weeks, &dr.days, &dr.hours, &dr.minutes, &dr.seconds].iter().map(|p| part_value(p)).collect();
                        match (total, parts) {
                            (Some(total), Ok(parts)) => {
                                if let Err((sig, det)) = law(&total, &units, &parts) {
                                    out = out.viol(format!("{} (after a further load)", sig), format!("load `{}`{} then `{}`: {}; parts {:?}", reload.trim(), if d[2] == 1 { " after one earlier time query" } else { "" }, q, det, parts.iter().map(|p| p.to_string()).collect::<Vec<_>>()));
                                }
                            }
                            (t, p) => out = out.viol("duration reply not readable", format!("{:?} {:?}", t.map(|x| x.to_string()), p.err())),
                        }
                    }
                    Ok(o) => out = out.viol("time value not shown as a duration after a load", format!("`{}` -> {}", q, reply_kind(&o))),
                    Err(e) => out = out.viol("time value refused after a load", format!("`{}`: {}", q, e)),
                }
                return out;
            }
        }
        let (q, want, is_dur) = match self.plan(idx) {
            Some(p) => p,
            None => return CaseOut::ok("skipped"),
        };
        let ctx = self.ctx.get(fresh_ctx);
        let res = eval_q(ctx, &q);
        let mut out = CaseOut::ok("").key(hash64(&q));
        match want {
            None => match res {
                Err(e) => out.outcome = format!("refused ({})", err_kind(&e)),
                Ok(r) => {
                    out.outcome = "accepted although non-conformable".into();
                    out = out.viol("non-conformable unit list accepted", format!("`{}` -> {}", q, r));
                }
            },
            Some((total, units)) => {
                let parts: Result<Vec<Rat>, String> = match &res {
                    Ok(QueryReply::UnitList(l)) if !is_dur => l.list.iter().map(part_value).collect(),
                    Ok(QueryReply::Duration(d)) if is_dur => {
                        if d.months.exact_value.as_deref() != Some("0") {
                            Err("months part is not 0".to_string())
                        } else {
                            [&d.years, &d.weeks, &d.days, &d.hours, &d.minutes, &d.seconds].iter().map(|p| part_value(p)).collect()
                        }
                    }
                    Ok(o) => Err(format!("reply kind {}", reply_kind(o))),
                    Err(e) => Err(format!("error: {}", e)),
                };
                match parts {
                    Ok(parts) => {
                        out.outcome = if is_dur { "duration breakdown".into() } else { format!("list of {}", units.len()) };
                        if let Err((sig, det)) = law(&total, &units, &parts) {
                            out = out.viol(sig, format!("`{}`: {}; parts {:?}", q, det, parts.iter().map(|p| p.to_string()).collect::<Vec<_>>()));
                        }
                    }
                    Err(e) => {
                        out.outcome = "no decomposition".into();
                        out = out.viol("conformable unit list not decomposed", format!("`{}`: {}", q, e));
                    }
                }
            }
        }
        out
    }
}
