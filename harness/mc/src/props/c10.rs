//! C10 — temperature scales are exact, mutually inverse affine maps.

use crate::common::*;
use engine::util::{hash64, Fams};
use engine::{CaseOut, Meta, Space};
use rink_core::output::{QueryError, QueryReply};
use rink_core::Context;
use serde_json::json;

const SPELL: [(&str, usize); 26] = [
    ("degC", 0), ("°C", 0), ("celsius", 0), ("℃", 0),
    ("degF", 1), ("°F", 1), ("fahrenheit", 1), ("℉", 1),
    ("degRé", 2), ("°Ré", 2), ("degRe", 2), ("°Re", 2), ("réaumur", 2), ("reaumur", 2),
    ("degRø", 3), ("°Rø", 3), ("degRo", 3), ("°Ro", 3), ("rømer", 3), ("romer", 3),
    ("degDe", 4), ("°De", 4), ("delisle", 4),
    ("degN", 5), ("°N", 5), ("degnewton", 5),
];
/// What may stand between the number and the scale (U+2009 THIN SPACE is how SI writes `20 °C`;
/// it is also a digit-group separator of the number lexer, which is why it needs its own case).
const SEPS: [(&str, &str); 5] = [(" ", "a space"), ("", "nothing"), ("\t", "a tab"), ("  ", "two spaces"), ("\u{2009}", "U+2009 thin space")];
/// (literal, numerator, denominator)
const SEP_LITS: [(&str, i64, i64); 7] = [("20", 20, 1), ("0", 0, 1), ("0.5", 1, 2), ("273.15", 27315, 100), ("1e2", 100, 1), ("1_000", 1000, 1), ("12\u{2009}345", 12345, 1)];
const ANS_XS: [(&str, i64, i64); 4] = [("20", 20, 1), ("-40", -40, 1), ("0.5", 1, 2), ("1|3", 1, 3)];
const CANON: [&str; 6] = ["°C", "°F", "°Ré", "°Rø", "°De", "°N"];

/// textbook affine maps, hard-coded: kelvin = a*x + b
fn to_kelvin(scale: usize, x: &Rat) -> Rat {
    let r = |s: &str| parse_literal(s).unwrap();
    match scale {
        0 => x + r("273.15"),
        1 => (x + r("459.67")) * rat(5, 9),
        2 => x * rat(5, 4) + r("273.15"),
        3 => (x - r("7.5")) * rat(40, 21) + r("273.15"),
        4 => r("373.15") - x * rat(2, 3),
        _ => x * rat(100, 33) + r("273.15"),
    }
}

fn from_kelvin(scale: usize, k: &Rat) -> Rat {
    let r = |s: &str| parse_literal(s).unwrap();
    match scale {
        0 => k - r("273.15"),
        1 => k * rat(9, 5) - r("459.67"),
        2 => (k - r("273.15")) * rat(4, 5),
        3 => (k - r("273.15")) * rat(21, 40) + r("7.5"),
        4 => (r("373.15") - k) * rat(3, 2),
        _ => (k - r("273.15")) * rat(33, 100),
    }
}

fn xtext(x: &Rat) -> String {
    use num_traits::Signed;
    let a = x.abs();
    let t = if a.is_integer() { format!("{}", a.numer()) } else { format!("({}|{})", a.numer(), a.denom()) };
    if x.is_negative() { format!("-{}", t) } else { t }
}

const REFUSE: [&str; 28] = [
    "3 m {s}", "(5 °C) {s}", "300 K -> 2 {s}", "300 K -> {s} m", "300 K -> m {s}", "300 K -> hex {s}",
    "300 K -> {s} {s}", "300 K -> {s}/2", "3 m -> {s}", "300 K -> {s} + 1", "3 s {s}", "300 K -> 1 {s}",
    // whatever follows the scale makes the target compound: lists, chains, brackets, powers
    "300 K -> {s}, {s}", "300 K -> {s}; {s}", "300 K -> {s},", "300 K -> {s};", "300 K -> {s})", "300 K -> {s} -> {s}",
    "300 K -> {s} to K", "300 K -> {s} in {s}", "300 K -> {s} ->", "300 K -> {s}^2", "300 K -> {s} per s", "300 K -> {s} K",
    "300 K -> {s}, m", "300 K -> {s} → °C", "300 K -> {s} * 2", "300 K -> {s} - 1",
];

/// Operands that already carry a dimension: refused under a scale operator whatever follows.
/// Format modifiers that a scale target accepts (a base modifier is refused by design).
const FMT_MODS: [&str; 6] = ["frac", "sci", "eng", "digits", "digits 20", "digits 0"];
const DIMMED: [&str; 4] = ["(3 kg)", "3 m", "(5 K)", "(2 °C)"];

pub struct C10 {
    fams: Fams,
    xs: Vec<(String, Rat)>,
    ctx: Lazy<Context>,
}

impl C10 {
    pub fn new(tier: &str) -> C10 {
        let mut xs: Vec<(String, Rat)> = vec![];
        for s in ["0", "1", "-1", "32", "100", "-273.15", "-459.67", "-500", "37.7777777777777777777", "1e20", "7.5", "150", "-0.000001"] {
            let v = if let Some(r) = s.strip_prefix('-') { -parse_literal(r).unwrap() } else { parse_literal(s).unwrap() };
            xs.push((s.to_string(), v));
        }
        xs.push(("1|3".into(), rat(1, 3)));
        xs.push(("-22|7".into(), rat(-22, 7)));
        if tier == "thorough" {
            for q in [1i64, 2, 3, 7, 10, 97] {
                for p in -40i64..=40 {
                    let v = rat(p, q);
                    xs.push((xtext(&v), v));
                }
            }
        }
        let mut fams = Fams::default();
        let (n, s) = (xs.len() as u64, SPELL.len() as u64);
        fams.add("x <scale> is the textbook formula", vec![n, s]);
        fams.add("(x <s1>) -> <s2> for all ordered spelling pairs", vec![n, s, s]);
        fams.add("chains of three conversions", vec![n, 6, 6, 6]);
        fams.add("refusals", vec![REFUSE.len() as u64, s]);
        fams.add("dimensioned operand under <s1>, converted to <s2>", vec![DIMMED.len() as u64, s, s]);
        // the output-format modifiers in front of a scale target: the value reported is the same
        fams.add("(x <s1>) -> <modifier> <s2> over the canonical spellings", vec![n, 6, 6, FMT_MODS.len() as u64]);
        // chains the way a session makes them: through the previous answer, with the public helper
        fams.add("chains through ans: x <s1> ; ans -> <s2> ; ans -> <s3> on a context that keeps its previous answer", vec![ANS_XS.len() as u64, 6, 6, 6]);
        // the number's own lexical neighbourhood: separators between the literal and the scale
        fams.add("what stands between the number and the scale", vec![SEP_LITS.len() as u64, SEPS.len() as u64, s, 2]);
        C10 { fams, xs, ctx: Lazy::new() }
    }
}

fn kelvin_dims() -> Dims {
    let mut d = Dims::new();
    d.insert("K".into(), 1);
    d
}

fn conv(ctx: &Context, q: &str) -> Result<Rat, String> {
    match eval_q(ctx, q) {
        Ok(QueryReply::Conversion(c)) => {
            let raw = c.value.raw_value.as_ref().ok_or("no raw value")?;
            numeric_to_rat(&raw.value).ok_or_else(|| "float".to_string())
        }
        Ok(o) => Err(format!("reply kind {}", reply_kind(&o))),
        Err(e) => Err(format!("error: {}", e)),
    }
}

impl Space for C10 {
    fn meta(&self) -> Meta {
        Meta {
            id: "C10",
            level: "exploration",
            rule: "rational x (boundary set: 0, +-1, 32, 100, -273.15, -459.67, -500, 1/3, -22/7, a 21-digit fraction, 1e20, ...; thorough adds the grid p/q, |p|<=40, q in {1,2,3,7,10,97}) x all 26 spellings of the six scales: `x <s>` against hard-coded textbook affine maps; `(x <s1>) -> <s2>` for all 26x26 ordered spelling pairs (36 scale pairs, incl. same-scale round trips); chains of three conversions over all 6^3 scale triples; 28 refusal shapes x 26 spellings (dimensioned operand, scale inside a compound target, anything after a scale target: text, a list separator, a second arrow, a bracket, a power; base modifier, non-temperature source); 4 dimensioned operands under every spelling converted to every spelling (26x26, incl. the same scale); chains of a session through the previous answer (`x <s1>`, `ans -> <s2>`, `ans -> <s3>` through rink_core::eval on a context that keeps `ans`) for 4 x and all 6^3 scale triples; 7 literals (plain, fraction, exponent, with `_` and U+2009 digit groups) x 5 separators between number and scale (space, none, tab, two spaces, U+2009 thin space directly after the digits - a thin space elsewhere is not white space in rink's grammar and is not demanded) x 26 spellings, alone and converted to degF; every x and ordered scale pair again under the format modifiers frac / sci / eng / digits / digits 20 / digits 0 in front of the target. Non-trivial = all; distinct by query text".into(),
            assumptions: vec!["textbook constants: 273.15, 459.67, 5/9, 5/4, 40/21 & 7.5, 373.15 & 2/3, 100/33".into()],
            exhaustive: true,
            extra: json!({"families": self.fams.summary(), "spellings": SPELL.iter().map(|s| s.0).collect::<Vec<_>>(), "refusal_shapes": REFUSE}),
        }
    }
    fn len(&self) -> u64 {
        self.fams.total()
    }
    fn describe(&self, idx: u64) -> String {
        let (f, d) = self.fams.locate(idx);
        match f {
            0 => format!("{} {}", self.xs[d[0] as usize].0, SPELL[d[1] as usize].0),
            1 => format!("({} {}) -> {}", self.xs[d[0] as usize].0, SPELL[d[1] as usize].0, SPELL[d[2] as usize].0),
            2 => format!("{} {} -> {} -> {} (chained)", self.xs[d[0] as usize].0, CANON[d[1] as usize], CANON[d[2] as usize], CANON[d[3] as usize]),
            4 => format!("{} {} -> {}", DIMMED[d[0] as usize], SPELL[d[1] as usize].0, SPELL[d[2] as usize].0),
            5 => format!("({} {}) -> {} {}", self.xs[d[0] as usize].0, CANON[d[1] as usize], FMT_MODS[d[3] as usize], CANON[d[2] as usize]),
            6 => format!("{} {} ; ans -> {} ; ans -> {}", ANS_XS[d[0] as usize].0, CANON[d[1] as usize], CANON[d[2] as usize], CANON[d[3] as usize]),
            7 => format!("{}{}{}{}", SEP_LITS[d[0] as usize].0, SEPS[d[1] as usize].0, SPELL[d[2] as usize].0, if d[3] == 1 { " -> °F" } else { "" }),
            _ => REFUSE[d[0] as usize].replace("{s}", SPELL[d[1] as usize].0),
        }
    }
    fn sample_indices(&self) -> Vec<u64> {
        self.fams.starts()
    }
    fn chunk(&self) -> u64 {
        // one worker runs the whole space in order: a scale operator that remembers anything from an
        // earlier query (a cache keyed too coarsely, say) then fails reproducibly, and the
        // confirmation replays the same prefix
        self.fams.total()
    }
    fn confirm_range(&self, idx: u64) -> (u64, u64) {
        (0, idx + 1)
    }
    fn reset(&mut self) {
        self.ctx.clear();
    }
    fn run(&mut self, idx: u64) -> CaseOut {
        let (f, d) = self.fams.locate(idx);
        let q = self.describe(idx);
        let ctx = self.ctx.get(fresh_ctx);
        let mut out = CaseOut::ok("").key(hash64(&q));
        match f {
            0 => {
                let want = to_kelvin(SPELL[d[1] as usize].1, &self.xs[d[0] as usize].1);
                out.outcome = "absolute temperature".into();
                match eval_q(ctx, &q) {
                    Ok(QueryReply::Number(p)) => {
                        let raw = p.raw_value.unwrap();
                        if dims_of(&raw) != kelvin_dims() {
                            out = out.viol("scale operator result is not a temperature", format!("`{}` -> {:?}", q, dims_of(&raw)));
                        }
                        if numeric_to_rat(&raw.value) != Some(want.clone()) {
                            out = out.viol("scale operator disagrees with the textbook formula", format!("`{}` -> {:?} K, textbook {} K", q, raw.value.to_rational(), want));
                        }
                    }
                    Ok(o) => out = out.viol("scale operator: unexpected reply", format!("`{}` -> {}", q, reply_kind(&o))),
                    Err(e) => out = out.viol("scale operator refused a plain number", format!("`{}` -> {}", q, e)),
                }
            }
            6 => {
                // one session: the scale value, then two conversions of `ans`.  A conversion is not a
                // plain result, so `ans` stays the absolute temperature throughout.
                let x = rat(ANS_XS[d[0] as usize].1, ANS_XS[d[0] as usize].2);
                let (a, b, c) = (d[1] as usize, d[2] as usize, d[3] as usize);
                let k = to_kelvin(a, &x);
                out.outcome = "chain through ans".into();
                ctx.save_previous_result = true;
                ctx.previous_result = None;
                let first = rink_core::eval(ctx, &format!("{} {}", ANS_XS[d[0] as usize].0, CANON[a]));
                let second = rink_core::eval(ctx, &format!("ans -> {}", CANON[b]));
                let third = rink_core::eval(ctx, &format!("ans -> {}", CANON[c]));
                ctx.save_previous_result = false;
                ctx.previous_result = None;
                ctx.set_time(fixed_now());
                let read = |r: &Result<QueryReply, QueryError>| -> Result<Rat, String> {
                    match r {
                        Ok(QueryReply::Conversion(cv)) => cv.value.raw_value.as_ref().and_then(|raw| numeric_to_rat(&raw.value)).ok_or_else(|| "no exact value".to_string()),
                        Ok(o) => Err(format!("reply kind {}", reply_kind(o))),
                        Err(e) => Err(format!("error: {}", e)),
                    }
                };
                if first.is_err() {
                    out = out.viol("scale operator refused a plain number", format!("{}: {:?}", q, first.err().map(|e| e.to_string())));
                }
                for (step, r, to) in [("second", &second, b), ("third", &third, c)] {
                    let want = from_kelvin(to, &k);
                    match read(r) {
                        Ok(g) if g == want => {}
                        Ok(g) => out = out.viol("chain of conversions through ans drifts", format!("{}: the {} step gives {} instead of {}", q, step, g, want)),
                        Err(e) => out = out.viol("chain of conversions through ans failed", format!("{}: the {} step: {}", q, step, e)),
                    }
                }
            }
            7 => {
                let x = rat(SEP_LITS[d[0] as usize].1, SEP_LITS[d[0] as usize].2);
                let k = to_kelvin(SPELL[d[2] as usize].1, &x);
                out.outcome = "number and scale with another separator".into();
                let sep = SEPS[d[1] as usize].1;
                if d[3] == 1 {
                    let want = from_kelvin(1, &k);
                    match conv(ctx, &q) {
                        Ok(g) if g == want => {}
                        Ok(g) => out = out.viol("scale conversion disagrees with the textbook formula", format!("`{}` ({} before the scale) -> {}, textbook {}", q.escape_default(), sep, g, want)),
                        Err(e) => out = out.viol(format!("number and scale separated by {} are refused", sep), format!("`{}`: {}", q.escape_default(), e)),
                    }
                } else {
                    match eval_q(ctx, &q) {
                        Ok(QueryReply::Number(p)) => {
                            let raw = p.raw_value.unwrap();
                            if dims_of(&raw) != kelvin_dims() || numeric_to_rat(&raw.value) != Some(k.clone()) {
                                out = out.viol("scale operator disagrees with the textbook formula", format!("`{}` ({} before the scale) -> {:?} {:?}, textbook {} K", q.escape_default(), sep, raw.value.to_rational(), dims_of(&raw), k));
                            }
                        }
                        Ok(o) => out = out.viol("scale operator: unexpected reply", format!("`{}` -> {}", q.escape_default(), reply_kind(&o))),
                        Err(e) => out = out.viol(format!("number and scale separated by {} are refused", sep), format!("`{}`: {}", q.escape_default(), e)),
                    }
                }
            }
            1 => {
                let (s1, s2) = (SPELL[d[1] as usize].1, SPELL[d[2] as usize].1);
                let x = &self.xs[d[0] as usize].1;
                let want = from_kelvin(s2, &to_kelvin(s1, x));
                out.outcome = if s1 == s2 { "same-scale round trip".into() } else { "scale-to-scale".into() };
                match conv(ctx, &q) {
                    Ok(g) if g == want => {}
                    Ok(g) => {
                        out = out.viol(
                            if s1 == s2 { "round trip through a scale does not return x" } else { "scale conversion disagrees with the textbook formula" },
                            format!("`{}` -> {}, textbook {}", q, g, want),
                        )
                    }
                    Err(e) => out = out.viol("scale conversion failed", format!("`{}`: {}", q, e)),
                }
            }
            2 => {
                let x = &self.xs[d[0] as usize].1;
                let (a, b, c) = (d[1] as usize, d[2] as usize, d[3] as usize);
                out.outcome = "chain".into();
                let step = |ctx: &Context, v: &Rat, from: usize, to: usize| conv(ctx, &format!("({} {}) -> {}", xtext(v), CANON[from], CANON[to]));
                let r = step(ctx, x, a, b).and_then(|y| step(ctx, &y, b, c)).and_then(|z| step(ctx, &z, c, a));
                match r {
                    Ok(back) if back == *x => {}
                    Ok(back) => out = out.viol("chain of conversions drifts", format!("{}: came back as {} instead of {}", q, back, x)),
                    Err(e) => out = out.viol("chain of conversions failed", format!("{}: {}", q, e)),
                }
                // and the middle value agrees with the direct formula
                if let Ok(y) = step(ctx, x, a, c) {
                    if y != from_kelvin(c, &to_kelvin(a, x)) {
                        out = out.viol("scale conversion disagrees with the textbook formula", format!("{} direct {}->{}: {}", q, CANON[a], CANON[c], y));
                    }
                }
            }
            5 => {
                let x = &self.xs[d[0] as usize].1;
                let want = from_kelvin(d[2] as usize, &to_kelvin(d[1] as usize, x));
                out.outcome = "scale conversion with a format modifier".into();
                match conv(ctx, &q) {
                    Ok(g) if g == want => {}
                    Ok(g) => out = out.viol("scale conversion with a format modifier disagrees with the textbook formula", format!("`{}` -> {}, textbook {}", q, g, want)),
                    Err(e) => out = out.viol("scale conversion with a format modifier failed", format!("`{}`: {}", q, e)),
                }
            }
            4 => match eval_q(ctx, &q) {
                Err(QueryError::Conformance(_)) => out.outcome = "refused (Conformance)".into(),
                Err(_) => out.outcome = "refused".into(),
                Ok(r) => {
                    out.outcome = "accepted".into();
                    out = out.viol(
                        format!("scale operator accepted on a dimensioned operand: `{} {{s1}} -> {{s2}}`", DIMMED[d[0] as usize]),
                        format!("`{}` -> {}", q, r),
                    );
                }
            },
            _ => {
                let shape = REFUSE[d[0] as usize];
                match eval_q(ctx, &q) {
                    Err(QueryError::Conformance(_)) => out.outcome = "refused (Conformance)".into(),
                    Err(_) => out.outcome = "refused".into(),
                    Ok(r) => {
                        out.outcome = "accepted".into();
                        out = out.viol(format!("scale operator accepted where it must be refused: `{}`", shape), format!("`{}` -> {}", q, r));
                    }
                }
            }
        }
        out
    }
}
