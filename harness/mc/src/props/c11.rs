//! C11 — printed expressions re-parse to the same expression.

use crate::common::*;
use engine::util::{decode, hash64};
use engine::{CaseOut, Meta, Space};
use rink_core::ast::{Def, DefEntry, Expr, ExprString};
use rink_core::output::ExprReply;
use rink_core::parsing::text_query::{parse_expr, Token, TokenIterator};
use rink_core::types::Numeric;
use serde_json::{json, Value};
use std::convert::TryFrom;

#[derive(Clone, Copy, Debug)]
enum K {
    Bin(&'static str),
    Juxt2,
    Juxt3,
    Call2,
    Neg,
    Pos,
    Deg(&'static str),
    Of,
    Call1,
}

const CONS: [(K, usize); 22] = [
    (K::Bin("+"), 2),
    (K::Bin("-"), 2),
    (K::Bin("/"), 2),
    (K::Bin("^"), 2),
    (K::Bin("="), 2),
    (K::Bin("<<"), 2),
    (K::Bin(">>"), 2),
    (K::Bin("mod"), 2),
    (K::Bin("and"), 2),
    (K::Bin("or"), 2),
    (K::Bin("xor"), 2),
    (K::Bin("*"), 2),
    (K::Juxt2, 2),
    (K::Call2, 2),
    (K::Juxt3, 3),
    (K::Neg, 1),
    (K::Pos, 1),
    (K::Deg("°C"), 1),
    (K::Deg("degF"), 1),
    (K::Of, 1),
    (K::Call1, 1),
    (K::Bin("|"), 2),
];

// `percent` has a second spelling in the lexer (`%`, a postfix that binds tighter than any operator):
// a printer that chooses between spellings by the leaf's name has to get every context right
const LEAVES6: [&str; 8] = ["a", "b", "1", "2.5", "'q'", "sqrt()", "'6\" p\u{b0}\tq'", "percent"];
const LEAVES2: [&str; 2] = ["a", "1"];

struct Gen {
    leaves: Vec<&'static str>,
    /// count[n] = number of trees with exactly n internal nodes
    count: Vec<u64>,
}

fn compositions(total: usize, parts: usize) -> Vec<Vec<usize>> {
    if parts == 1 {
        return vec![vec![total]];
    }
    let mut out = vec![];
    for first in 0..=total {
        for mut rest in compositions(total - first, parts - 1) {
            let mut v = vec![first];
            v.append(&mut rest);
            out.push(v);
        }
    }
    out
}

impl Gen {
    fn new(leaves: Vec<&'static str>, maxn: usize) -> Gen {
        let mut count = vec![leaves.len() as u64];
        for n in 1..=maxn {
            let mut c = 0u64;
            for (_k, ar) in CONS.iter() {
                for comp in compositions(n - 1, *ar) {
                    c += comp.iter().map(|i| count[*i]).product::<u64>();
                }
            }
            count.push(c);
        }
        Gen { leaves, count }
    }

    /// fully parenthesised text of the idx-th tree with exactly n internal nodes
    fn unrank(&self, n: usize, mut idx: u64) -> String {
        if n == 0 {
            return self.leaves[idx as usize].to_string();
        }
        for (k, ar) in CONS.iter() {
            for comp in compositions(n - 1, *ar) {
                let sizes: Vec<u64> = comp.iter().map(|i| self.count[*i]).collect();
                let block: u64 = sizes.iter().product();
                if idx >= block {
                    idx -= block;
                    continue;
                }
                let digits = decode(idx, &sizes);
                let kids: Vec<String> = comp.iter().zip(digits).map(|(ni, d)| self.unrank(*ni, d)).collect();
                return match k {
                    K::Bin(op) => format!("(({}) {} ({}))", kids[0], op, kids[1]),
                    K::Juxt2 => format!("(({}) ({}))", kids[0], kids[1]),
                    K::Juxt3 => format!("(({}) ({}) ({}))", kids[0], kids[1], kids[2]),
                    K::Call2 => format!("hypot(({}), ({}))", kids[0], kids[1]),
                    K::Neg => format!("(-({}))", kids[0]),
                    K::Pos => format!("(+({}))", kids[0]),
                    K::Deg(s) => format!("(({}) {})", kids[0], s),
                    K::Of => format!("(p of ({}))", kids[0]),
                    K::Call1 => format!("sqrt(({}))", kids[0]),
                };
            }
        }
        panic!("unrank out of range");
    }
}

use rink_core::ast::Function;
const DIRECT_FUNCS: [Function; 20] = [
    Function::Sqrt, Function::Exp, Function::Ln, Function::Log2, Function::Log10, Function::Sin, Function::Cos, Function::Tan, Function::Asin, Function::Acos,
    Function::Atan, Function::Sinh, Function::Cosh, Function::Tanh, Function::Asinh, Function::Acosh, Function::Atanh, Function::Log, Function::Hypot, Function::Atan2,
];

/// The same document can reach a peer by other routes than `to_string` / `from_str`: as a
/// serde_json::Value, from a reader, or written by a producer that escapes every non-ASCII
/// character.  Every route must give the tree back.
fn serde_other_routes(e0: &Expr) -> Vec<(String, String)> {
    let mut bad = vec![];
    let es = ExprString(e0.clone());
    match serde_json::to_value(&es).ok().and_then(|v| serde_json::from_value::<ExprString>(v).ok()) {
        Some(back) if back.0 == *e0 => {}
        Some(back) => bad.push(("ExprString does not survive serde (through a Value)".to_string(), format!("`{}` came back as `{}`", e0, back.0))),
        None => bad.push(("ExprString fails to deserialise (through a Value)".to_string(), format!("`{}`", e0))),
    }
    if let Ok(text) = serde_json::to_string(&es) {
        match serde_json::from_reader::<_, ExprString>(text.as_bytes()) {
            Ok(back) if back.0 == *e0 => {}
            Ok(back) => bad.push(("ExprString does not survive serde (from a reader)".to_string(), format!("`{}` came back as `{}`", e0, back.0))),
            Err(e) => bad.push(("ExprString fails to deserialise (from a reader)".to_string(), format!("`{}`: {}", e0, e))),
        }
        // the same JSON string with every non-ASCII character written as \uXXXX (what Python's json.dumps emits)
        let mut ascii = String::new();
        for ch in text.chars() {
            if ch.is_ascii() {
                ascii.push(ch);
            } else {
                let mut buf = [0u16; 2];
                for u in ch.encode_utf16(&mut buf) {
                    ascii.push_str(&format!("\\u{:04x}", u));
                }
            }
        }
        match serde_json::from_str::<ExprString>(&ascii) {
            Ok(back) if back.0 == *e0 => {}
            Ok(back) => bad.push(("ExprString does not survive serde (ASCII-escaped JSON)".to_string(), format!("`{}` came back as `{}`", e0, back.0))),
            Err(e) => bad.push(("ExprString fails to deserialise (ASCII-escaped JSON)".to_string(), format!("`{}`: {}", e0, e))),
        }
    }
    bad
}

fn direct_tree(i: u64) -> Expr {
    let f = DIRECT_FUNCS[(i / 5) as usize];
    let call = Expr::new_call(f, vec![]);
    let a = Expr::new_unit("a".to_string());
    match i % 5 {
        0 => call,
        1 => Expr::new_add(a, call),
        2 => Expr::new_pow(call, Expr::new_unit("b".to_string())),
        3 => Expr::new_call(Function::Hypot, vec![call, a]),
        _ => Expr::new_mul(vec![a, call]),
    }
}

pub struct C11 {
    gens: Vec<(Gen, usize)>,
    gen_total: u64,
    ndefs: u64,
    defs: Lazy<Vec<DefEntry>>,
}

fn parse_all(s: &str) -> Option<Expr> {
    let mut it = TokenIterator::new(s).peekable();
    let e = parse_expr(&mut it);
    match it.next() {
        Some(Token::Eof) => Some(e),
        _ => None,
    }
}

fn has_error(e: &Expr) -> bool {
    match e {
        Expr::Error { .. } | Expr::Date { .. } => true,
        Expr::BinOp(b) => has_error(&b.left) || has_error(&b.right),
        Expr::UnaryOp(u) => has_error(&u.expr),
        Expr::Mul { exprs } => exprs.iter().any(has_error),
        Expr::Of { expr, .. } => has_error(expr),
        Expr::Call { args, .. } => args.iter().any(has_error),
        _ => false,
    }
}

/// Why a tree is outside the property's quantifier (inexact numerals, names that are not plain identifiers).
fn excluded(e: &Expr) -> Option<&'static str> {
    fn plain_ident(n: &str) -> bool {
        matches!(parse_all(n), Some(Expr::Unit { name }) if name == n)
    }
    match e {
        Expr::Const { value } => {
            let (exact, text) = value.to_string(10, rink_core::output::Digits::Default);
            if !exact || text.contains('[') {
                return Some("numeral does not print exactly");
            }
            if let Numeric::Float(_) = value {
                return Some("float constant");
            }
            None
        }
        Expr::Unit { name } => {
            if plain_ident(name) {
                None
            } else {
                Some("name is not a plain identifier")
            }
        }
        Expr::Quote { string } => {
            if string.contains('\'') || string.contains('\\') || string.contains('\n') {
                Some("quote needs escapes")
            } else {
                None
            }
        }
        Expr::Of { property, expr } => {
            if !plain_ident(property) {
                return Some("name is not a plain identifier");
            }
            excluded(expr)
        }
        Expr::BinOp(b) => excluded(&b.left).or_else(|| excluded(&b.right)),
        Expr::UnaryOp(u) => excluded(&u.expr),
        Expr::Mul { exprs } => exprs.iter().find_map(excluded),
        Expr::Call { args, .. } => args.iter().find_map(excluded),
        Expr::Date { .. } => Some("date literal"),
        Expr::Error { .. } => Some("error node"),
    }
}

fn join_parts(v: &Value) -> String {
    let mut out: Vec<String> = vec![];
    if let Some(arr) = v.as_array() {
        for p in arr {
            match p["type"].as_str() {
                Some("literal") => out.push(p["text"].as_str().unwrap_or("").to_string()),
                Some("unit") => out.push(p["name"].as_str().unwrap_or("").to_string()),
                Some("property") => out.push(format!("{} of {}", p["property"].as_str().unwrap_or(""), join_parts(&p["subject"]))),
                Some("error") => out.push(format!("<error: {}>", p["message"].as_str().unwrap_or(""))),
                _ => {}
            }
        }
    }
    out.join(" ")
}

/// All three printers must re-parse to `e`.
fn check_expr(e: &Expr, what: &str) -> Vec<(String, String)> {
    let mut bad = vec![];
    let shown = e.to_string();
    match parse_all(&shown) {
        Some(e1) if e1 == *e => {}
        Some(e1) => bad.push((
            format!("Display does not re-parse to the same tree ({})", shape_class(e, &e1)),
            format!("{}: `{}` re-parses as `{}`; original {:?}", what, shown, e1, e),
        )),
        None => bad.push(("Display output is not fully consumed by the parser".into(), format!("{}: `{}`", what, shown))),
    }
    let reply = serde_json::to_value(ExprReply::from(e)).unwrap_or(Value::Null);
    let joined = join_parts(&reply["exprs"]);
    match parse_all(&joined) {
        Some(e1) if e1 == *e => {}
        Some(e1) => bad.push((
            format!("ExprReply parts do not re-parse to the same tree ({})", shape_class(e, &e1)),
            format!("{}: parts `{}` re-parse as `{}`; original `{}`", what, joined, e1, shown),
        )),
        None => bad.push(("ExprReply parts are not fully consumed by the parser".into(), format!("{}: `{}`", what, joined))),
    }
    bad
}

/// Coarse class of a re-parse disagreement: the top-level node kinds of the first differing subtrees.
fn shape_class(a: &Expr, b: &Expr) -> String {
    fn kind(e: &Expr) -> String {
        match e {
            Expr::BinOp(b) => format!("{:?}", b.op),
            Expr::UnaryOp(u) => format!("{:?}", u.op),
            Expr::Mul { .. } => "Mul".into(),
            Expr::Of { .. } => "Of".into(),
            Expr::Call { .. } => "Call".into(),
            Expr::Unit { .. } | Expr::Quote { .. } | Expr::Const { .. } => "Leaf".into(),
            _ => "Other".into(),
        }
    }
    fn first_diff<'a>(a: &'a Expr, b: &'a Expr) -> (&'a Expr, &'a Expr) {
        match (a, b) {
            (Expr::BinOp(x), Expr::BinOp(y)) if x.op == y.op => {
                if x.left != y.left {
                    first_diff(&x.left, &y.left)
                } else {
                    first_diff(&x.right, &y.right)
                }
            }
            (Expr::UnaryOp(x), Expr::UnaryOp(y)) if x.op == y.op => first_diff(&x.expr, &y.expr),
            (Expr::Of { expr: x, property: p }, Expr::Of { expr: y, property: q }) if p == q => first_diff(x, y),
            (Expr::Mul { exprs: x }, Expr::Mul { exprs: y }) if x.len() == y.len() => {
                for (i, j) in x.iter().zip(y) {
                    if i != j {
                        return first_diff(i, j);
                    }
                }
                (a, b)
            }
            (Expr::Call { args: x, func: f }, Expr::Call { args: y, func: g }) if x.len() == y.len() && f == g => {
                for (i, j) in x.iter().zip(y) {
                    if i != j {
                        return first_diff(i, j);
                    }
                }
                (a, b)
            }
            _ => (a, b),
        }
    }
    let (x, y) = first_diff(a, b);
    format!("{} became {}", kind(x), kind(y))
}

fn all_exprs(d: &DefEntry) -> Vec<(String, Expr)> {
    match &*d.def {
        Def::Prefix { expr, .. } | Def::Unit { expr } | Def::Quantity { expr } => vec![(d.name.clone(), expr.0.clone())],
        Def::Substance { properties, .. } => properties
            .iter()
            .flat_map(|p| vec![(format!("{}.{} input", d.name, p.name), p.input.0.clone()), (format!("{}.{} output", d.name, p.name), p.output.0.clone())])
            .collect(),
        _ => vec![],
    }
}

fn load_defs() -> Vec<DefEntry> {
    let mut v = rink_core::loader::gnu_units::parse_str(rink_core::DEFAULT_FILE.unwrap()).defs;
    v.extend(rink_core::loader::gnu_units::parse_str(rink_core::CURRENCY_FILE.unwrap()).defs);
    v
}

impl C11 {
    pub fn new(tier: &str) -> C11 {
        let mut gens = vec![(Gen::new(LEAVES6.to_vec(), 2), 2)];
        if tier == "thorough" {
            gens.push((Gen::new(LEAVES2.to_vec(), 3), 3));
        }
        let gen_total = gens.iter().map(|(g, maxn)| g.count[..=*maxn].iter().sum::<u64>()).sum();
        let (defs, _) = capture_stdout(load_defs);
        C11 { gens, gen_total, ndefs: defs.len() as u64, defs: Lazy::new() }
    }

    fn gen_text(&self, mut idx: u64) -> String {
        for (g, maxn) in &self.gens {
            for n in 0..=*maxn {
                if idx < g.count[n] {
                    return g.unrank(n, idx);
                }
                idx -= g.count[n];
            }
        }
        panic!("out of range")
    }
}

impl Space for C11 {
    fn meta(&self) -> Meta {
        Meta {
            id: "C11",
            level: "exploration",
            rule: "every expression tree with <= 2 operator nodes over 8 leaves (one a quoted name containing a double quote, a degree sign and a tab; one the unit `percent`, which the lexer also spells `%`) (thorough: also <= 3 nodes over 2 leaves) and 22 constructors (11 binary operators, explicit *, |, juxtaposition of 2 and 3, unary + and -, two temperature suffixes, `of`, calls with 0/1/2 arguments) in every operand position; each tree is written fully parenthesised and parsed by rink, giving e0; then Display(e0), the serde form of ExprString (through to_string/from_str, through a Value, from a reader, and from ASCII-escaped JSON), and the ExprReply parts (joined by single spaces) must each parse back to e0 with the whole text consumed. A generated text that parses to an error node is a violation. Third source: calls without arguments of all 20 functions built directly from the AST constructors, alone and in 4 operand positions. Second source: every expression of every entry of definitions.units and currency.units as produced by the definitions parser, also through serde_json for the whole DefEntry. Non-trivial = not excluded (inexact numerals, names that are not plain identifiers, error nodes); distinct by Debug form of e0".into(),
            assumptions: vec![
                "ExprReply parts are rendered by joining them with single spaces".into(),
                "trees whose constants print inexactly (recurring/approx.) or whose names are not plain identifiers of the query language are outside the statement and are skipped and counted".into(),
            ],
            exhaustive: true,
            extra: json!({"generated_trees": self.gen_total, "definition_entries": self.ndefs, "constructors": CONS.iter().map(|c| format!("{:?}", c.0)).collect::<Vec<_>>()}),
        }
    }
    fn len(&self) -> u64 {
        self.gen_total + self.ndefs + DIRECT_FUNCS.len() as u64 * 5
    }
    fn describe(&self, idx: u64) -> String {
        if idx >= self.gen_total + self.ndefs {
            return format!("directly constructed tree: {}", direct_tree(idx - self.gen_total - self.ndefs));
        }
        if idx < self.gen_total {
            self.gen_text(idx)
        } else {
            format!("definition entry #{}", idx - self.gen_total)
        }
    }
    fn chunk(&self) -> u64 {
        4000
    }
    fn run(&mut self, idx: u64) -> CaseOut {
        if idx >= self.gen_total + self.ndefs {
            // trees built from the AST constructors, not through the parser: calls without arguments
            // of every function, alone and as operands (what `sin()` parses to on a correct parser)
            let e0 = direct_tree(idx - self.gen_total - self.ndefs);
            let mut out = CaseOut::ok("directly constructed tree").key(hash64(&format!("{:?}", e0)));
            for (s, d) in check_expr(&e0, &e0.to_string()) {
                out = out.viol(s, d);
            }
            let ser: Result<String, _> = serde_json::to_string(&ExprString(e0.clone()));
            match ser.ok().and_then(|s| serde_json::from_str::<ExprString>(&s).ok()) {
                Some(back) if back.0 == e0 => {}
                Some(back) => out = out.viol("ExprString does not survive serde", format!("`{}` came back as `{}`", e0, back.0)),
                None => out = out.viol("ExprString fails to deserialise", format!("`{}`", e0)),
            }
            return out;
        }
        if idx < self.gen_total {
            let text = self.gen_text(idx);
            let e0 = match parse_all(&text) {
                Some(e) => e,
                None => return CaseOut::ok("generator text not consumed").viol("generator", format!("`{}` not consumed", text)),
            };
            if has_error(&e0) {
                // every generated text is the fully parenthesised written form of a tree made of valid
                // constructors only (it is also what Display prints for that tree): it must parse
                return CaseOut::ok("parser produced an error node").viol(
                    "a fully parenthesised tree of valid constructors does not parse",
                    format!("`{}` parsed to `{}`", text, e0),
                );
            }
            if let Some(why) = excluded(&e0) {
                return CaseOut::ok(format!("excluded: {}", why));
            }
            let mut out = CaseOut::ok("generated tree").key(hash64(&format!("{:?}", e0)));
            for (s, d) in check_expr(&e0, &text) {
                out = out.viol(s, d);
            }
            // serde form used for exchange between server and clients
            let ser: Result<String, _> = serde_json::to_string(&ExprString(e0.clone()));
            match ser.ok().and_then(|s| serde_json::from_str::<ExprString>(&s).ok()) {
                Some(back) if back.0 == e0 => {}
                Some(back) => out = out.viol("ExprString does not survive serde", format!("`{}` came back as `{}`", e0, back.0)),
                None => out = out.viol("ExprString fails to deserialise", format!("`{}`", e0)),
            }
            for (s, d) in serde_other_routes(&e0) {
                out = out.viol(s, d);
            }
            return out;
        }
        let i = (idx - self.gen_total) as usize;
        let defs = self.defs.get(|| capture_stdout(load_defs).0);
        let d = &defs[i];
        let exprs = all_exprs(d);
        if exprs.is_empty() {
            return CaseOut::ok("definition without expression");
        }
        let mut out = CaseOut::ok("definition");
        let mut judged = false;
        for (what, e) in &exprs {
            if let Some(why) = excluded(e) {
                out.outcome = format!("definition excluded: {}", why);
                continue;
            }
            judged = true;
            for (s, dt) in check_expr(e, what) {
                out = out.viol(s, dt);
            }
            let _ = ExprString::try_from(e.to_string());
        }
        if judged && exprs.iter().all(|(_, e)| excluded(e).is_none()) {
            out.outcome = "definition".into();
            out.key = Some(hash64(&format!("{:?}", exprs)));
            // whole entry through serde_json
            let before = format!("{:?}", d);
            match serde_json::to_string(d).ok().and_then(|s| serde_json::from_str::<DefEntry>(&s).ok()) {
                Some(back) => {
                    if format!("{:?}", back) != before {
                        out = out.viol("DefEntry does not survive serde_json", format!("{} -> {:?}", before, back));
                    }
                }
                None => out = out.viol("DefEntry fails to deserialise", before),
            }
        }
        out
    }
}

/// The tree generator, reusable by other checks (fully parenthesised query text per index).
pub struct GenPub {
    g: Gen,
    maxn: usize,
}

impl GenPub {
    pub fn new(leaves: Vec<&'static str>, maxn: usize) -> GenPub {
        GenPub { g: Gen::new(leaves, maxn), maxn }
    }
    pub fn total(&self) -> u64 {
        self.g.count[..=self.maxn].iter().sum()
    }
    pub fn text(&self, mut idx: u64) -> String {
        for n in 0..=self.maxn {
            if idx < self.g.count[n] {
                return self.g.unrank(n, idx);
            }
            idx -= self.g.count[n];
        }
        panic!("out of range")
    }
}
