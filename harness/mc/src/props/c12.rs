//! C12 — definition order does not matter.

use crate::common::*;
use engine::util::{hash64, Fams};
use engine::{CaseOut, Meta, Space};
use rink_core::ast::{Def, DefEntry, Defs};
use rink_core::loader::gnu_units::parse_str;
use rink_core::Context;
use serde_json::json;
use std::collections::BTreeMap;
use std::rc::Rc;

/// (name, text, dependencies as pool indices)
const POOL: [(&str, &str, &[usize]); 45] = [
    ("m", "?? the metre\nm !meter\n", &[]),
    ("kilo", "kilo- 1000\n", &[]),
    ("k", "k-- kilo\n", &[1]),
    ("a1", "a1 b1\n", &[4]),
    ("b1", "b1 c1\n", &[5]),
    ("c1", "c1 d1\n", &[6]),
    ("d1", "?? documented unit\n!category cat \"Cat\"\nd1 3 m\n!endcategory\n", &[0, 17]),
    ("top", "top left1 + right1\n", &[8, 9]),
    ("left1", "left1 2 base1\n", &[10]),
    ("right1", "right1 5 base1\n", &[10]),
    ("base1", "base1 7 m\n", &[0]),
    ("viaprefix", "viaprefix 2 kd1\n", &[2, 6]),
    ("viaplural", "viaplural 3 left1s\n", &[8]),
    ("length", "length ? m\n", &[0]),
    ("area", "area ? length^2\n", &[13]),
    ("stuff", "stuff {\n    heaviness weight 3 d1 / size 2 m\n}\n", &[6]),
    ("milli", "milli- 1|kilo\n", &[1]),
    ("cat", "!category cat \"Cat\"\n!endcategory\n", &[]),
    // a name with two valid prefix splits (d+am, da+m) referenced by a unit that sorts first
    ("d", "d-- 1|10\n", &[]),
    ("da", "da-- 10\n", &[]),
    ("am", "am 7 m\n", &[0]),
    ("a_x", "a_x 2 dam\n", &[0, 18, 19, 20]),
    // references to a base unit by its long name, from names sorting before and after it
    ("a_long", "a_long 3 meter\n", &[0]),
    ("z_long", "z_long 5 kilometers\n", &[0, 1]),
    // units defined by a chemical formula, from names sorting before and after the elements
    ("kg", "kg !kilogram\n", &[]),
    ("mol", "mol !mole\n", &[]),
    ("carbon", "!symbol carbon C\ncarbon {\n    molar_mass mass 12 kg / amount 1 mol\n}\n", &[24, 25]),
    ("oxygen", "!symbol oxygen O\noxygen {\n    molar_mass mass 16 kg / amount 1 mol\n}\n", &[24, 25]),
    ("aaice", "aaice CO2\n", &[26, 27]),
    ("dryice", "dryice CO2\n", &[26, 27]),
    // a prefixed plural (kilo + d1 + s) referenced from a name that sorts before all three parts
    ("a_plur", "a_plur 3 kilod1s\n", &[1, 6]),
    // a name in every other position of a definition: exponent, call argument, property access,
    // under a unary minus, as a divisor - each from a name that sorts before what it mentions
    ("z_two", "z_two 2\n", &[]),
    ("a_pow", "a_pow m^z_two\n", &[0, 31]),
    ("a_mm", "a_mm molar_mass of carbon\n", &[26]),
    ("a_neg", "a_neg -z_long\n", &[23]),
    ("a_frac", "a_frac m / z_two\n", &[0, 31]),
    // formulas of a single element, with and without a count, from names sorting before and after it
    ("aaoxy", "aaoxy O2\n", &[27]),
    ("zzoxy", "zzoxy O3\n", &[27]),
    ("aacarb", "aacarb C\n", &[26]),
    // a substance (unit name space, sorts first) whose later property mentions an earlier property
    // that is named like a quantity: the quantity is pulled in early, before its base unit
    ("aaa_sub", "aaa_sub {\n    length const aaa_length 3\n    area const aaa_area length^2\n}\n", &[0, 13]),
    // a prefix defined by a name that is both a unit and a prefix, from a prefix that sorts first
    ("double", "double- 2\ndouble 2\n", &[]),
    ("dbl", "dbl-- double\n", &[40]),
    // a long prefix is a unit of its own: used bare, from a name that sorts before everything else that uses it
    ("a_kilo", "a_kilo 3 kilo\n", &[1]),
    ("zop", "zop- 100000\n", &[]),
    ("a_zop", "a_zop 3 zop\n", &[43]),
];

fn pool_entries(i: usize) -> Vec<DefEntry> {
    let (name, text, _) = POOL[i];
    let mut defs = parse_str(text).defs;
    // keep only the entry this pool item stands for (d1's snippet also yields the category entry)
    defs.retain(|d| d.name == name);
    defs
}

fn clone_entry(d: &DefEntry) -> DefEntry {
    DefEntry { name: d.name.clone(), def: d.def.clone(), doc: d.doc.clone(), category: d.category.clone() }
}

fn closed_subsets(k: usize) -> Vec<Vec<usize>> {
    let n = POOL.len();
    let mut out = vec![];
    let mut cur = vec![];
    fn rec(start: usize, n: usize, k: usize, cur: &mut Vec<usize>, out: &mut Vec<Vec<usize>>) {
        if cur.len() == k {
            let closed = cur.iter().all(|i| POOL[*i].2.iter().all(|d| cur.contains(d)));
            if closed {
                out.push(cur.clone());
            }
            return;
        }
        for i in start..n {
            cur.push(i);
            rec(i + 1, n, k, cur, out);
            cur.pop();
        }
    }
    rec(0, n, k, &mut cur, &mut out);
    out
}

fn nth_permutation(n: usize, mut k: u64) -> Vec<usize> {
    let mut items: Vec<usize> = (0..n).collect();
    let mut out = vec![];
    let mut f: Vec<u64> = vec![1; n + 1];
    for i in 1..=n {
        f[i] = f[i - 1] * i as u64;
    }
    for i in (0..n).rev() {
        let idx = (k / f[i]) as usize;
        k %= f[i];
        out.push(items.remove(idx));
    }
    out
}

fn load_dump(defs: Vec<DefEntry>) -> (String, Vec<String>) {
    let mut ctx = Context::new();
    ctx.use_humanize = false;
    let res = ctx.load(Defs { defs });
    let mut errs: Vec<String> = match res {
        Ok(()) => vec![],
        Err(e) => e.lines().skip(1).map(|l| l.trim().to_string()).collect(),
    };
    errs.sort();
    (format!("{:?}", ctx.registry), errs)
}

fn ns(d: &Def) -> u8 {
    match d {
        Def::Prefix { .. } => 1,
        Def::Quantity { .. } => 2,
        Def::Category { .. } => 3,
        _ => 0,
    }
}

/// Bundled definitions with duplicates of one (namespace, name) reduced to the last occurrence.
fn bundled() -> (Vec<DefEntry>, Vec<String>) {
    let (defs, _) = capture_stdout(|| parse_str(rink_core::DEFAULT_FILE.unwrap()).defs);
    let mut last: BTreeMap<(u8, String), usize> = BTreeMap::new();
    for (i, d) in defs.iter().enumerate() {
        last.insert((ns(&d.def), d.name.clone()), i);
    }
    let mut dups = vec![];
    let mut out = vec![];
    for (i, d) in defs.into_iter().enumerate() {
        if last[&(ns(&d.def), d.name.clone())] == i {
            out.push(d);
        } else {
            dups.push(d.name.clone());
        }
    }
    (out, dups)
}

pub struct C12 {
    fams: Fams,
    subsets: Vec<Vec<usize>>,
    nbundled: usize,
    dups: Vec<String>,
    rot_step: usize,
    base: Lazy<(Vec<DefEntry>, u64, Vec<String>)>,
    sub_ref: Lazy<BTreeMap<usize, (u64, Vec<String>)>>,
    rink_bin: Option<String>,
    ext_ref: Lazy<Result<String, String>>,
    ext_ref2: Lazy<Result<String, String>>,
    text_ref: Lazy<(String, Vec<String>)>,
}

const EXT: [&str; 6] = [
    "ext_a 3 ext_b\n",
    "ext_b 2 meter\n",
    "ext_c ext_a + ext_d\n",
    "ext_d 5 kiloext_b\n",
    "ext_e 7 ext_cs\n",
    "ext_q ? length^5 / time^7\n",
];

/// Text-level family: the snippets are concatenated in every order into 1-3 files which are parsed
/// as files (doc comments, categories and other parser state carry from line to line), unlike family
/// (a) which permutes already parsed entries.
const TEXTS: [&str; 7] = [
    "?? the metre\nm !meter\n",
    "?? how long something is\nlength ? m\n",
    "foot 0.3048 m\n",
    "?? three feet\nyard 3 foot\n",
    "area ? length^2\n",
    "?? a thousand\nkilo- 1000\n",
    "stuff {\n    heaviness weight 3 foot / size 2 m\n}\n",
];
/// The substance's `!symbol` directive, placed (0) directly before the substance, (1) directly
/// after it, (2) at the end of the file that holds the substance: a directive names its substance,
/// its position within the file carries no meaning.
const SYMBOL_LINE: &str = "!symbol stuff St\n";
/// cut points (i <= j) of a 7-item sequence into files [0,i) [i,j) [j,7)
fn cuts() -> Vec<(usize, usize)> {
    let mut v = vec![];
    for i in 0..=TEXTS.len() {
        for j in i..=TEXTS.len() {
            v.push((i, j));
        }
    }
    v
}

impl C12 {
    pub fn new(tier: &str) -> C12 {
        let thorough = tier == "thorough";
        let mut subsets = closed_subsets(7);
        if !thorough {
            // every 32nd dependency-closed subset in the quick tier, plus - so that no definition of
            // the pool goes untried - the first subset that contains each pool item
            let all = subsets;
            let mut pick: std::collections::BTreeSet<usize> = (0..all.len()).step_by(32).collect();
            for item in 0..POOL.len() {
                if let Some(i) = all.iter().position(|s| s.contains(&item)) {
                    pick.insert(i);
                }
            }
            subsets = pick.into_iter().map(|i| all[i].clone()).collect();
        }
        let (b, dups) = bundled();
        let rot_step = if thorough { 1 } else { 24 };
        let mut fams = Fams::default();
        fams.add("all permutations of dependency-closed 7-subsets of the pool", vec![subsets.len() as u64, 5040]);
        fams.add("bundled database: reversal, sorted asc/desc, dependency-reversed", vec![4]);
        fams.add("bundled database: rotations", vec![(b.len() / rot_step) as u64]);
        let rink_bin = std::env::var("RINK_BIN").ok().filter(|p| std::path::Path::new(p).exists());
        fams.add("split across files through the real binary", vec![if rink_bin.is_none() { 0 } else if thorough { 64 } else { 16 }, 2, 4]);
        fams.add("text-level: every order of 7 snippets x every split into up to 3 files", vec![5040, cuts().len() as u64, 3]);
        C12 {
            fams,
            subsets,
            nbundled: b.len(),
            dups,
            rot_step,
            base: Lazy::new(),
            sub_ref: Lazy::new(),
            rink_bin,
            ext_ref: Lazy::new(),
            ext_ref2: Lazy::new(),
            text_ref: Lazy::new(),
        }
    }

    fn mask(&self, d0: u64) -> u64 {
        // the quick tier explores 16 of the 64 assignments, spread over the mask space
        if self.fams.fams[3].1[0] == 64 {
            d0
        } else {
            (d0 * 4 + d0 / 4) % 64
        }
    }
}

fn run_dump(bin: &str, dir: &std::path::Path, cwd_file: &str, cfg_file: &str) -> Result<String, String> {
    let _ = std::fs::remove_dir_all(dir);
    let cwd = dir.join("cwd");
    let cfg = dir.join("config/rink");
    std::fs::create_dir_all(&cwd).map_err(|e| e.to_string())?;
    std::fs::create_dir_all(&cfg).map_err(|e| e.to_string())?;
    std::fs::write(cfg.join("config.toml"), "[currency]\nenabled = false\n").map_err(|e| e.to_string())?;
    if !cwd_file.is_empty() {
        std::fs::write(cwd.join("definitions.units"), cwd_file).map_err(|e| e.to_string())?;
    }
    if !cfg_file.is_empty() {
        std::fs::write(cfg.join("definitions.units"), cfg_file).map_err(|e| e.to_string())?;
    }
    let out = std::process::Command::new(bin)
        .arg("--dump")
        .arg("dump.txt")
        .current_dir(&cwd)
        .env("XDG_CONFIG_HOME", dir.join("config"))
        .env("XDG_CACHE_HOME", dir.join("cache"))
        .env("HOME", dir)
        .env("NO_COLOR", "1")
        .output()
        .map_err(|e| e.to_string())?;
    if !out.status.success() {
        return Err(format!("rink --dump failed: {}", String::from_utf8_lossy(&out.stderr)));
    }
    let text = std::fs::read_to_string(cwd.join("dump.txt")).map_err(|e| e.to_string())?;
    let _ = std::fs::remove_dir_all(dir);
    // the clock is not part of the database
    Ok(text.lines().filter(|l| !l.trim_start().starts_with("now:")).collect::<Vec<_>>().join("\n"))
}

impl Space for C12 {
    fn meta(&self) -> Meta {
        Meta {
            id: "C12",
            level: "exploration",
            rule: "(a) all 5040 permutations of every dependency-closed 7-subset (quick: every 32nd, plus the first subset containing each definition) of a 39-definition pool (single-element formulas `O2`, `C` and compound ones from names sorting before and after the elements; names in exponents, property accesses, under unary minus and as divisors, each referenced from a name sorting first; 4-long alias chain, diamond, dependency reachable only through a prefix split / only through a plural, long+short prefixes defined through each other, quantities, a substance, category, docs); (b) the bundled database reversed, sorted by name ascending/descending, in dependency-reversed order, and under every rotation (quick: every 24th); (c) a 6-definition extension set distributed over ./definitions.units and $XDG_CONFIG_HOME/rink/definitions.units in all 2^6 assignments x both internal orders x 4 file endings (as written, no final newline, either file ending inside a `!category` block) through the real `rink --dump`; (d) text level: all 5040 orders of 7 snippets (documented and undocumented base unit, quantities, units, prefix, substance) x all 36 splits into up to 3 files x 3 positions of the substance's `!symbol` directive within its file, each file parsed as a file (parser state such as a pending `??` comment carries between lines), against the snippets parsed one by one. Oracle: byte-identical Debug dump of the whole Registry and identical error multiset versus the reference order. Non-trivial = all; distinct by the order used".into(),
            assumptions: vec![
                "premise of the statement: uniquely named definitions - entries sharing (namespace, name) in the shipped file are reduced to their last occurrence before permuting (listed in the evidence)".into(),
                "Debug of Registry shows every field".into(),
            ],
            exhaustive: true,
            extra: json!({"families": self.fams.summary(), "bundled_entries": self.nbundled, "duplicate_names_removed": self.dups, "closed_subsets": self.subsets.len(), "rink_binary": self.rink_bin}),
        }
    }
    fn len(&self) -> u64 {
        self.fams.total()
    }
    fn describe(&self, idx: u64) -> String {
        let (f, d) = self.fams.locate(idx);
        match f {
            0 => {
                let s = &self.subsets[d[0] as usize];
                let p = nth_permutation(7, d[1]);
                format!("pool order: {}", p.iter().map(|i| POOL[s[*i]].0).collect::<Vec<_>>().join(", "))
            }
            1 => format!("bundled database {}", ["reversed", "sorted by name ascending", "sorted by name descending", "in dependency-reversed order"][d[0] as usize]),
            2 => format!("bundled database rotated by {}", (d[0] as usize + 1) * self.rot_step),
            4 => {
                let p = nth_permutation(TEXTS.len(), d[0]);
                let (i, j) = cuts()[d[1] as usize];
                let name = |k: &usize| ["m", "length", "foot", "yard", "area", "kilo", "stuff"][*k];
                format!(
                    "symbol directive {}; files: [{}] [{}] [{}]",
                    ["before its substance", "after its substance", "at the end of its file"][d[2] as usize],
                    p[..i].iter().map(name).collect::<Vec<_>>().join(", "),
                    p[i..j].iter().map(name).collect::<Vec<_>>().join(", "),
                    p[j..].iter().map(name).collect::<Vec<_>>().join(", ")
                )
            }
            _ => format!(
                "extension set split by mask {:06b}, order {}, {}",
                self.mask(d[0]),
                if d[1] == 0 { "forward" } else { "reversed" },
                ["files as written", "no newline at the end of either file", "first file ends inside a category block", "second file ends inside a category block"][d[2] as usize]
            ),
        }
    }
    fn sample_indices(&self) -> Vec<u64> {
        self.fams.starts()
    }
    fn chunk(&self) -> u64 {
        // pool permutations are tiny; bundled loads cost ~0.2 s each
        16
    }
    fn time_limit(&self, _idx: u64) -> std::time::Duration {
        std::time::Duration::from_secs(60)
    }
    fn run(&mut self, idx: u64) -> CaseOut {
        let (f, d) = self.fams.locate(idx);
        let key = hash64(&(f, &d));
        match f {
            0 => {
                let si = d[0] as usize;
                let s = self.subsets[si].clone();
                let entries: Vec<Vec<DefEntry>> = s.iter().map(|i| pool_entries(*i)).collect();
                let build = |order: &[usize]| -> Vec<DefEntry> {
                    order.iter().flat_map(|i| entries[*i].iter().map(clone_entry)).collect()
                };
                let refs = self.sub_ref.get(BTreeMap::new);
                let (rh, rerrs) = refs
                    .entry(si)
                    .or_insert_with(|| {
                        let (dump, errs) = load_dump(build(&(0..7).collect::<Vec<_>>()));
                        (hash64(&dump), errs)
                    })
                    .clone();
                let p = nth_permutation(7, d[1]);
                let (dump, errs) = load_dump(build(&p));
                let mut out = CaseOut::ok("pool permutation").key(key);
                if hash64(&dump) != rh {
                    out = out.viol("database depends on definition order (generated pool)", format!("{}\n{}", self.describe(idx), engine::util::clip(&dump, 1500)));
                }
                if errs != rerrs {
                    out = out.viol("reported problems depend on definition order (generated pool)", format!("{}: {:?} vs {:?}", self.describe(idx), errs, rerrs));
                }
                // every pool definition is valid and every subset is dependency-closed: forward references resolve
                if !errs.is_empty() {
                    out = out.viol("a dependency-closed set of valid definitions does not load cleanly", format!("{}: {:?}", self.describe(idx), errs));
                }
                out
            }
            1 | 2 => {
                let desc = self.describe(idx);
                let (base, bh, berrs) = self.base.get(|| {
                    let (b, _) = bundled();
                    let (dump, errs) = load_dump(b.iter().map(clone_entry).collect());
                    (b, hash64(&dump), errs)
                });
                let n = base.len();
                let mut order: Vec<usize> = (0..n).collect();
                if f == 2 {
                    order.rotate_left(((d[0] as usize + 1) * self.rot_step) % n);
                } else {
                    match d[0] {
                        0 => order.reverse(),
                        1 => order.sort_by(|a, b| base[*a].name.cmp(&base[*b].name)),
                        2 => order.sort_by(|a, b| base[*b].name.cmp(&base[*a].name)),
                        _ => {
                            // dependency-reversed: every definition before the definitions it uses
                            let depth = dep_depths(base);
                            order.sort_by_key(|i| std::cmp::Reverse(depth[*i]));
                        }
                    }
                }
                let defs: Vec<DefEntry> = order.iter().map(|i| clone_entry(&base[*i])).collect();
                let (dump, errs) = load_dump(defs);
                let mut out = CaseOut::ok("bundled reorder").key(key);
                if hash64(&dump) != *bh {
                    out = out.viol("database depends on definition order (bundled)", format!("{}: dump differs from the shipped order", desc));
                }
                if &errs != berrs {
                    out = out.viol("reported problems depend on definition order (bundled)", format!("{}: {:?}", desc, errs));
                }
                out
            }
            4 => {
                let p = nth_permutation(TEXTS.len(), d[0]);
                let (i, j) = cuts()[d[1] as usize];
                let desc = self.describe(idx);
                let sym_pos = d[2];
                let rf = self.text_ref.get(|| {
                    let defs: Vec<DefEntry> = TEXTS.iter().flat_map(|t| if t.starts_with("stuff") { parse_str(&format!("{}{}", SYMBOL_LINE, t)).defs } else { parse_str(t).defs }).collect();
                    let (dump, errs) = load_dump(defs);
                    (dump, errs)
                });
                let mut defs = vec![];
                for part in [&p[..i], &p[i..j], &p[j..]] {
                    let mut text = String::new();
                    let mut has_stuff = false;
                    for k in part.iter() {
                        if TEXTS[*k].starts_with("stuff") {
                            has_stuff = true;
                            match sym_pos {
                                0 => text.push_str(&format!("{}{}", SYMBOL_LINE, TEXTS[*k])),
                                1 => text.push_str(&format!("{}{}", TEXTS[*k], SYMBOL_LINE)),
                                _ => text.push_str(TEXTS[*k]),
                            }
                        } else {
                            text.push_str(TEXTS[*k]);
                        }
                    }
                    if has_stuff && sym_pos == 2 {
                        text.push_str(SYMBOL_LINE);
                    }
                    defs.extend(parse_str(&text).defs);
                }
                let (dump, errs) = load_dump(defs);
                let mut out = CaseOut::ok("text permutation and split").key(key);
                if dump != rf.0 {
                    let (a, b) = (&dump, &rf.0);
                    let at = a.bytes().zip(b.bytes()).position(|(x, y)| x != y).unwrap_or(a.len().min(b.len()));
                    let lo = at.saturating_sub(60);
                    out = out.viol(
                        "database depends on the order / file split of the definition text",
                        format!("{}: ...{}... instead of ...{}...", desc, engine::util::clip(&a[lo..], 160), engine::util::clip(&b[lo..], 160)),
                    );
                }
                if errs != rf.1 {
                    out = out.viol("reported problems depend on the order / file split of the definition text", format!("{}: {:?} vs {:?}", desc, errs, rf.1));
                }
                out
            }
            _ => {
                let bin = self.rink_bin.clone().unwrap();
                let vd = std::env::var("VERIF_DIR").unwrap_or_else(|_| "/verif".into());
                let dir = std::path::PathBuf::from(format!("{}/target/tmp/c12-{}-{}", vd, std::process::id(), idx));
                let mut items: Vec<usize> = (0..EXT.len()).collect();
                if d[1] == 1 {
                    items.reverse();
                }
                let (mut a, mut b) = (String::new(), String::new());
                let mask = self.mask(d[0]);
                for i in &items {
                    if mask >> i & 1 == 1 {
                        a.push_str(EXT[*i]);
                    } else {
                        b.push_str(EXT[*i]);
                    }
                }
                // file endings: 0 as written; 1 no newline after the last line of either file; 2 / 3 the
                // first / second file ends inside a `!category` block (the block ends with its file)
                const CAT_OPEN: &str = "!category gizmos \"Gizmos\"\next_g 3 meter\n";
                let style = d[2];
                match style {
                    1 => {
                        a = a.trim_end_matches('\n').to_string();
                        b = b.trim_end_matches('\n').to_string();
                    }
                    2 => a.push_str(CAT_OPEN),
                    3 => b.push_str(CAT_OPEN),
                    _ => {}
                }
                let mut out = CaseOut::ok("split across files").key(key);
                let reference = if style >= 2 {
                    let single = format!("{}{}!endcategory\n", EXT.concat(), CAT_OPEN);
                    self.ext_ref2.get(|| run_dump(&bin, &dir.join("ref2"), &single, "")).clone()
                } else {
                    let single: String = EXT.concat();
                    self.ext_ref.get(|| run_dump(&bin, &dir.join("ref"), &single, "")).clone()
                };
                let got = run_dump(&bin, &dir.join("got"), &a, &b);
                let _ = std::fs::remove_dir_all(&dir);
                match (reference, got) {
                    (Ok(r), Ok(g)) => {
                        if !r.contains("ext_e") {
                            out = out.viol("harness: extension set did not load", "ext_e missing from the reference dump".to_string());
                        }
                        if r != g {
                            out = out.viol("database depends on how definitions are split across files", self.describe(idx));
                        }
                    }
                    (r, g) => {
                        out = out.viol("rink --dump failed", format!("{:?} / {:?}", r.err(), g.err()));
                    }
                }
                out
            }
        }
    }
}

fn names_in(e: &rink_core::ast::Expr, out: &mut Vec<String>) {
    use rink_core::ast::Expr;
    match e {
        Expr::Unit { name } => out.push(name.clone()),
        Expr::BinOp(b) => {
            names_in(&b.left, out);
            names_in(&b.right, out);
        }
        Expr::UnaryOp(u) => names_in(&u.expr, out),
        Expr::Mul { exprs } => exprs.iter().for_each(|x| names_in(x, out)),
        Expr::Call { args, .. } => args.iter().for_each(|x| names_in(x, out)),
        Expr::Of { expr, .. } => names_in(expr, out),
        _ => {}
    }
}

/// Longest dependency path below each entry (exact-name references only).
fn dep_depths(defs: &[DefEntry]) -> Vec<usize> {
    let mut by_name: BTreeMap<&str, usize> = BTreeMap::new();
    for (i, d) in defs.iter().enumerate() {
        by_name.insert(&d.name, i);
    }
    let deps: Vec<Vec<usize>> = defs
        .iter()
        .map(|d| {
            let mut names = vec![];
            match &*d.def {
                Def::Prefix { expr, .. } | Def::Unit { expr } | Def::Quantity { expr } => names_in(&expr.0, &mut names),
                Def::Substance { properties, .. } => {
                    for p in properties {
                        names_in(&p.input.0, &mut names);
                        names_in(&p.output.0, &mut names);
                    }
                }
                _ => {}
            }
            names.iter().filter_map(|n| by_name.get(n.as_str()).copied()).collect()
        })
        .collect();
    let mut depth = vec![usize::MAX; defs.len()];
    fn go(i: usize, deps: &[Vec<usize>], depth: &mut Vec<usize>, stack: &mut Vec<usize>) -> usize {
        if depth[i] != usize::MAX {
            return depth[i];
        }
        if stack.contains(&i) || stack.len() > 500 {
            return 0;
        }
        stack.push(i);
        let mut m = 0;
        for d in &deps[i] {
            m = m.max(1 + go(*d, deps, depth, stack));
        }
        stack.pop();
        depth[i] = m;
        m
    }
    for i in 0..defs.len() {
        let mut st = vec![];
        go(i, &deps, &mut depth, &mut st);
    }
    depth
}

#[allow(dead_code)]
fn _keep(_: Rc<Def>) {}
