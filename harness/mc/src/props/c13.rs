//! C13 — loading arbitrary definition text is safe and reports its problems.

use crate::common::*;
use crate::props::c07::CURRENCY_JSON;
use engine::util::{hash64, Fams};
use engine::{Abnormal, CaseOut, Meta, Space, Violation};
use rink_core::Context;
use serde_json::{json, Value};
use std::collections::{BTreeMap, BTreeSet};

const SOUP: [&str; 29] = [
    "a", "b", "a-", "a--", "1", "0", "-1", "m", "!", "?", "{", "}", "const", "/", "|", "^", "-", "+", "(", ")", "?? doc",
    "!category", "!endcategory", "!symbol", "\\", "\"", "\n", "3.", ".",
];
/// Token soup about *names*: base units with long names, plurals, prefixed spellings, aliases.
/// Every name that can come out of it is queried and canonicalized after the load.
const NAMESOUP: [&str; 15] = ["a", "b", "as", "bs", "ka", "kb", "k-", "!", "!a", "!b", "\n", "2", "0", "a-", "?"];
const NAME_PROBES: [&str; 12] = ["a", "b", "as", "bs", "ka", "kb", "kas", "kbs", "aa", "ab", "k", "kk"];
/// Alias graphs: after `b !`, `c !`, `k- 1000`, up to three definitions `X Y` whose right-hand sides
/// are reached through the plural and prefix rules.
const ALIAS_NAMES: [&str; 5] = ["kb", "kc", "bb", "cs", "kbs"];
const ALIAS_TARGETS: [&str; 12] = ["kb", "kbs", "kc", "kcs", "b", "bs", "c", "cs", "bb", "bbs", "kkb", "kcss"];
/// Two quantity definitions after `b !`, `k- 1000`, `a 3 b^2`: the same or different dimensionalities,
/// under names that also read as a unit, its plural or a prefixed unit.
const QNAMES: [&str; 8] = ["q", "r", "as", "bs", "a", "kb", "qs", "kas"];
const QDIMS: [&str; 4] = ["b", "b^2", "b^-1", "q"];
/// What may follow a complete currency document: (tail, must the load report it?)
const JSON_TAILS: [(&str, bool); 14] = [
    ("", false), ("\n", false), (" \t\r\n", false), ("]", true), ("}", true), ("[]", true), ("null", true), (" x", true), (",", true), ("</html>", true), ("\u{0}", true), ("\n[]\n", true), ("{}", true), ("0", true),
];
const DATESOUP: [&str; 17] = ["[", "]", "'", "-", ":", " ", "year", "day", "sec", "offset", "T", "#", "\t", "\u{a0}", "\u{3000}", "\r", "\n"];

#[derive(Clone)]
struct Dev {
    file: u8,
    line: u32,
    kind: u8,
    tok: u16,
}

pub struct C13 {
    fams: Fams,
    files: [Vec<String>; 3],
    devs: Vec<Dev>,
    soup_len: Vec<u64>,
    cyc_lens: Vec<u64>,
    json_paths: Vec<Vec<String>>,
    json_cuts: Vec<usize>,
    /// names referenced exactly by some other definition and their definers
    needed: BTreeMap<u32, String>,
    tier: String,
    /// number of name-soup families
    name_lens: usize,
}

const DEVKINDS: [&str; 6] = ["delete line", "duplicate line", "swap with next line", "delete token", "replace number by 0", "replace number by -1"];
const SUBSTANCE_FILES: [&str; 33] = [
    // base units and their long names: self-naming, mutual, shadowed by units, used before and after
    "a !a\nb a\n",
    "a !a\n0b a\nzz 3 a\n",
    "a !b\nb !a\nc a\nd b\n",
    "m !meter\nA1 3 meter\nzz 2 meters\n",
    "m !meter\nmeter 3 m\nA1 meter\n",
    "m !m\na m\nzz m\n",
    "a !b\nb 3 a\nc b\n",
    "a !b\nb- 1000\nc 2 ba\nd 2 b\n",
    "a !b\nb ? a\nc b\n",
    "m !meter\nlump 3 m\nfoo {\n  lump const weight 5 m\n  broken const y 1 nothing\n}\nheap 2 lump\n",
    "m !meter\nfoo {\n  p const q 5 m\n  r const t 0 m\n}\nq 7 m\n",
    "m !meter\nfoo {\n  density a 2 m / b 1 m\n  other c 1 m / d nothing\n}\na 9 m\n",
    "m !meter\nfoo {\n  mass const foo_mass 0 m\n}\n",
    "m !meter\nfoo {\n  density a 0 m / b 1 m\n}\n",
    "m !meter\nfoo {\n  density a 1 m / b 0 m\n}\n",
    "m !meter\nfoo {\n  density a -1 m / b 1 m\n}\n",
    "m !meter\ns !second\nfoo {\n  density a 1 m / b 1 s\n  density a 2 m / b 1 s\n}\n",
    "m !meter\nfoo {\n  density a 1 nothing / b 1 m\n}\n",
    "m !meter\nfoo {\n  density a 1 m\n}\n",
    "m !meter\nfoo {\n  density\n}\n",
    "m !meter\nfoo {\n",
    "m !meter\nfoo {\n  p const q 1 m\n  p const q 2 m\n}\n",
    "m !meter\nfoo {\n  p const q foo\n}\n",
    "m !meter\nfoo {\n  ?? doc\n  p const q 1|0 m\n}\n!symbol foo Fo\n",
    "m !meter\n!symbol nothing No\n!symbol\n!category\n!category x\n!endcategory\n!endcategory\n!bogus thing\n",
    "m !meter\nfoo {\n  p const q 0\n}\nbar p of foo\n",
    // prefixes worth zero (or less): every later reply divides by the prefix it picks
    "m !meter\nkilo- 0\nmilli- 0\nmega- 0.0\nmicro- -1\n",
    "m !meter\nkilo- 0^.5\nmilli- 1e-400\n",
    // quantity powers at the edge of the exponent type
    "q !\nx ? q^2305843009213693952\ny ? x x\nz ? x / x^-1\nw ? x x x x\n",
    "q !\nx ? q^-2305843009213693952\ny ? x x x x\nz ? 1 / x\nw ? x^-4\n",
    "q !\nx ? q^4611686018427387904\ny ? x x\n",
    // units named like the previous-answer words (a lookup reads those as the previous answer)
    "m !meter\nans 42 m\nANS 3 m\n_ 2 m\n",
    "ans !\n_ !underscore\nx 3 ans\n",
];

/// Property values that are zero in some representation (an exact zero, a float zero from a
/// fractional power of zero, a float underflow), then two non-zero controls.
const PROP_VALUES: [(&str, bool); 12] = [
    ("0", true),
    ("0^.5", true),
    ("1e-300^1.5", true),
    ("0|3", true),
    ("-0", true),
    ("0e5", true),
    (".0", true),
    ("0^.5 0^.5", true),
    ("3 0^.5", true),
    ("0^.5 + 0", true),
    ("1e-400", false),
    ("1|3", false),
];

fn prop_value_file(v: usize, pos: u64) -> String {
    let z = PROP_VALUES[v].0;
    match pos {
        0 => format!("m !meter\ns !second\nfoo {{\n  p const q {} m\n}}\n", z),
        1 => format!("m !meter\ns !second\nfoo {{\n  density a {} m / b 1 s\n}}\n", z),
        _ => format!("m !meter\ns !second\nfoo {{\n  density a 3 m / b {} s\n}}\n", z),
    }
}

/// Exponent boundary values in definitions (bases whose powers stay small).
const EXP_BASES: [&str; 4] = ["1", "0", "-1", "1|1"];
const EXP_EXPS: [&str; 10] = ["-2147483648", "2147483647", "-2147483649", "2147483648", "4294967296", "-4294967296", "9223372036854775807", "-9223372036854775808", "1e30", "-1"];

fn exp_file(b: u64, e: u64, form: u64) -> String {
    let x = format!("{}^{}", EXP_BASES[b as usize], EXP_EXPS[e as usize]);
    match form {
        0 => format!("m !meter\nk- {}\nu 3 km\n", x),
        1 => format!("m !meter\nu {}\n", x),
        2 => format!("m !meter\nu {} m\nv 2 u\n", x),
        3 => format!("m !meter\nu m^{}\n", EXP_EXPS[e as usize]),
        5 => format!("m !meter\nlength ? m\narea ? length^2\nfoo ? area^{}\nbar ? foo^{}\n", EXP_EXPS[e as usize], EXP_EXPS[e as usize]),
        _ => format!("m !meter\nfoo {{\n  p const q {} m\n}}\n", x),
    }
}

fn tokens(line: &str) -> Vec<(usize, usize)> {
    let mut out = vec![];
    let mut start = None;
    for (i, c) in line.char_indices() {
        if c.is_whitespace() {
            if let Some(s) = start.take() {
                out.push((s, i));
            }
        } else if start.is_none() {
            start = Some(i);
        }
    }
    if let Some(s) = start {
        out.push((s, line.len()));
    }
    out
}

fn is_number(t: &str) -> bool {
    !t.is_empty() && t.chars().next().unwrap().is_ascii_digit()
}

fn json_paths(v: &Value, cur: &mut Vec<String>, out: &mut Vec<Vec<String>>) {
    match v {
        Value::Array(a) => {
            for (i, x) in a.iter().enumerate() {
                cur.push(i.to_string());
                out.push(cur.clone());
                json_paths(x, cur, out);
                cur.pop();
            }
        }
        Value::Object(o) => {
            for (k, x) in o {
                cur.push(k.clone());
                out.push(cur.clone());
                json_paths(x, cur, out);
                cur.pop();
            }
        }
        _ => {}
    }
}

fn json_edit(v: &mut Value, path: &[String], edit: u64) {
    if path.len() == 1 {
        let replacement = |old: &Value| match edit {
            1 => json!(null),
            2 => json!(12345),
            3 => json!("\\u"),
            4 => json!([old.clone()]),
            5 => json!({"x": old.clone()}),
            6 => json!(""),
            _ => json!("1 / 0"),
        };
        match v {
            Value::Array(a) => {
                let i: usize = path[0].parse().unwrap();
                if edit == 0 {
                    a.remove(i);
                } else {
                    a[i] = replacement(&a[i]);
                }
            }
            Value::Object(o) => {
                if edit == 0 {
                    o.remove(&path[0]);
                } else {
                    let old = o[&path[0]].clone();
                    o.insert(path[0].clone(), replacement(&old));
                }
            }
            _ => {}
        }
        return;
    }
    match v {
        Value::Array(a) => json_edit(&mut a[path[0].parse::<usize>().unwrap()], &path[1..], edit),
        Value::Object(o) => json_edit(o.get_mut(&path[0]).unwrap(), &path[1..], edit),
        _ => {}
    }
}

impl C13 {
    pub fn new(tier: &str) -> C13 {
        let thorough = tier == "thorough";
        let files = [
            rink_core::DEFAULT_FILE.unwrap().lines().map(|s| s.to_string()).collect::<Vec<_>>(),
            rink_core::CURRENCY_FILE.unwrap().lines().map(|s| s.to_string()).collect::<Vec<_>>(),
            rink_core::DATES_FILE.unwrap().lines().map(|s| s.to_string()).collect::<Vec<_>>(),
        ];
        let mut devs = vec![];
        for (fi, lines) in files.iter().enumerate() {
            let step = if thorough || fi == 2 { 1 } else if fi == 1 { 3 } else { 40 };
            for (li, line) in lines.iter().enumerate() {
                if li % step != 0 {
                    continue;
                }
                let t = line.trim();
                if t.is_empty() || t.starts_with('#') {
                    continue;
                }
                for kind in 0..3u8 {
                    devs.push(Dev { file: fi as u8, line: li as u32, kind, tok: 0 });
                }
                for (ti, (s, e)) in tokens(line).iter().enumerate() {
                    devs.push(Dev { file: fi as u8, line: li as u32, kind: 3, tok: ti as u16 });
                    if is_number(&line[*s..*e]) {
                        devs.push(Dev { file: fi as u8, line: li as u32, kind: 4, tok: ti as u16 });
                        devs.push(Dev { file: fi as u8, line: li as u32, kind: 5, tok: ti as u16 });
                    }
                }
            }
        }
        // which single-line unit definitions are needed by another definition (exact reference,
        // no other reading possible once the line is gone)?
        let mut needed = BTreeMap::new();
        {
            let (defs, _) = capture_stdout(|| rink_core::loader::gnu_units::parse_str(rink_core::DEFAULT_FILE.unwrap()).defs);
            let mut refs: BTreeSet<String> = BTreeSet::new();
            let all_names: BTreeSet<String> = defs.iter().map(|d| d.name.clone()).collect();
            for d in &defs {
                let mut names = vec![];
                if let rink_core::ast::Def::Unit { expr } = &*d.def {
                    collect(&expr.0, &mut names);
                }
                for n in names {
                    if n != d.name {
                        refs.insert(n);
                    }
                }
            }
            let symbols: BTreeSet<String> = defs
                .iter()
                .filter_map(|d| match &*d.def {
                    rink_core::ast::Def::Substance { symbol: Some(s), .. } => Some(s.clone()),
                    _ => None,
                })
                .collect();
            let prefixes: Vec<String> = defs
                .iter()
                .filter(|d| matches!(&*d.def, rink_core::ast::Def::Prefix { .. }))
                .map(|d| d.name.clone())
                .collect();
            for (li, line) in files[0].iter().enumerate() {
                let toks = tokens(line);
                if toks.len() < 2 || line.starts_with(char::is_whitespace) {
                    continue;
                }
                let name = &line[toks[0].0..toks[0].1];
                if !refs.contains(name) || name.ends_with('-') {
                    continue;
                }
                // defined once?
                if defs.iter().filter(|d| d.name == name).count() != 1 {
                    continue;
                }
                // no alternative reading through a prefix split or a plural
                let others = |n: &str| all_names.contains(n) && n != name;
                let alt = prefixes.iter().any(|p| name.strip_prefix(p.as_str()).map(|r| others(r)).unwrap_or(false))
                    || name.strip_suffix('s').map(|st| others(st) || prefixes.iter().any(|p| st.strip_prefix(p.as_str()).map(|r| others(r)).unwrap_or(false))).unwrap_or(false);
                // ... nor as a chemical formula over the declared element symbols (`U`, `Hg`, `CO2`)
                let alt = alt || reads_as_formula(name, &symbols);
                if !alt {
                    needed.insert(li as u32, name.to_string());
                }
            }
        }
        let soup_len: Vec<u64> = if thorough { vec![1, 2, 3, 4, 5] } else { vec![1, 2, 3, 4] };
        let cyc_lens: Vec<u64> = if thorough { vec![1, 2, 3, 4, 5, 6, 7, 8, 9, 10, 11, 12, 100, 1000, 5000, 10000] } else { vec![1, 2, 3, 4, 5, 6, 7, 8, 9, 10, 11, 12, 100, 1000, 2000, 5000] };
        let root: Value = serde_json::from_str(CURRENCY_JSON).unwrap();
        let mut paths = vec![];
        json_paths(&root, &mut vec![], &mut paths);
        if !thorough {
            paths = paths.into_iter().step_by(2).collect();
        }
        let cut_step = if thorough { 1 } else { 9 };
        let json_cuts: Vec<usize> = (0..CURRENCY_JSON.len()).filter(|i| CURRENCY_JSON.is_char_boundary(*i) && i % cut_step == 0).collect();
        let mut fams = Fams::default();
        fams.add("single deviations of the bundled files", vec![devs.len() as u64]);
        for l in &soup_len {
            // quick tier: the longest soups only into the empty context
            let ctxs = if !thorough && *l == 4 { 1 } else { 2 };
            fams.add(&format!("definition token soup of length {}", l), vec![(SOUP.len() as u64).pow(*l as u32), ctxs]);
        }
        fams.add("dependency cycles: length x namespace", vec![cyc_lens.len() as u64, 11]);
        fams.add("dependency chains: length x direction", vec![if thorough { 3 } else { 2 }, 2]);
        fams.add("malformed substances and directives", vec![SUBSTANCE_FILES.len() as u64]);
        fams.add("currency JSON: truncations", vec![json_cuts.len() as u64]);
        fams.add("currency JSON: field deleted / type replaced / bad expression", vec![paths.len() as u64, 8]);
        fams.add("date pattern soup", vec![(DATESOUP.len() as u64).pow(if thorough { 5 } else { 4 })]);
        fams.add("substance property values: zero in every representation x position", vec![PROP_VALUES.len() as u64, 3]);
        fams.add("exponent boundary values in definitions", vec![EXP_BASES.len() as u64, EXP_EXPS.len() as u64, 6]);
        for l in 1..=(if thorough { 5u32 } else { 4 }) {
            fams.add(&format!("name soup of length {}", l), vec![(NAMESOUP.len() as u64).pow(l)]);
        }
        let at = (ALIAS_NAMES.len() * ALIAS_TARGETS.len()) as u64;
        fams.add("alias graphs through plurals and prefixes: 1 to 3 definitions", vec![at + at * at + if thorough { at * at * at } else { 0 }]);
        fams.add("very long runs of blanks and line continuations", vec![4]);
        fams.add("currency JSON: a complete document followed by something else", vec![JSON_TAILS.len() as u64 + 1]);
        fams.add("pairs of quantity definitions: name x dimensionality, twice", vec![QNAMES.len() as u64, QDIMS.len() as u64, QNAMES.len() as u64, QDIMS.len() as u64]);
        C13 { fams, files, devs, soup_len, cyc_lens, json_paths: paths, json_cuts, needed, tier: tier.to_string(), name_lens: if thorough { 5 } else { 4 } }
    }

    fn deviated(&self, d: &Dev) -> String {
        let lines = &self.files[d.file as usize];
        let mut out: Vec<String> = lines.clone();
        let li = d.line as usize;
        match d.kind {
            0 => {
                out.remove(li);
            }
            1 => out.insert(li, lines[li].clone()),
            2 => {
                if li + 1 < out.len() {
                    out.swap(li, li + 1);
                }
            }
            _ => {
                let toks = tokens(&lines[li]);
                let (s, e) = toks[d.tok as usize];
                let rep = match d.kind {
                    3 => "",
                    4 => "0",
                    _ => "-1",
                };
                out[li] = format!("{}{}{}", &lines[li][..s], rep, &lines[li][e..]);
            }
        }
        out.join("\n")
    }
}

fn collect(e: &rink_core::ast::Expr, out: &mut Vec<String>) {
    use rink_core::ast::Expr;
    match e {
        Expr::Unit { name } => out.push(name.clone()),
        Expr::BinOp(b) => {
            collect(&b.left, out);
            collect(&b.right, out);
        }
        Expr::UnaryOp(u) => collect(&u.expr, out),
        Expr::Mul { exprs } => exprs.iter().for_each(|x| collect(x, out)),
        Expr::Call { args, .. } => args.iter().for_each(|x| collect(x, out)),
        Expr::Of { expr, .. } => collect(expr, out),
        _ => {}
    }
}

/// After any load the context must still answer queries.
fn canaries(ctx: &mut Context, extra: &[&str]) -> Vec<(String, String)> {
    let mut bad = vec![];
    // small contexts only (the Debug form of a full database is ~0.5 MB): scratch entries of a
    // rejected definition must not survive the load, they would shadow real names
    if ctx.registry.units.len() < 50 {
        let dbg = format!("{:?}", ctx);
        if !dbg.contains("temporaries: {}") {
            let at = dbg.find("temporaries:").unwrap_or(0);
            bad.push(("scratch entries of a definition survive the load".to_string(), engine::util::clip(&dbg[at..], 200)));
        }
    }
    match eval_q(ctx, "1 + 1") {
        Ok(r) => {
            let s = r.to_string();
            if !s.starts_with('2') {
                bad.push(("context does not answer 1 + 1 after the load".into(), s));
            }
        }
        Err(e) => bad.push(("context does not answer 1 + 1 after the load".into(), e.to_string())),
    }
    for q in extra {
        // must not panic; the answer itself is not judged here
        let r = eval_q(ctx, q);
        if let Ok(r) = r {
            let _ = r.to_string();
            let _ = serde_json::to_string(&r);
        }
    }
    bad
}

/// Does `name` read as a chemical formula whose element symbols are all declared?  (The loader and
/// the evaluator then resolve it to a substance, so the name is not dangling.)
fn reads_as_formula(name: &str, symbols: &BTreeSet<String>) -> bool {
    let mut chars = name.chars().peekable();
    let mut any = false;
    while let Some(c) = chars.next() {
        match c {
            'A'..='Z' => {
                let mut sym = c.to_string();
                if let Some('a'..='z') = chars.peek().cloned() {
                    sym.push(chars.next().unwrap());
                }
                if !symbols.contains(&sym) {
                    return false;
                }
                any = true;
            }
            '0'..='9' => (),
            _ => return false,
        }
    }
    any
}

fn cycle_text(n: u64, nsidx: u64) -> (String, Vec<String>) {
    let mut t = String::from("m !meter\nk-- 1000\n");
    let w = 5;
    let nm = |i: u64| format!("u{:0w$}", i % n, w = w);
    match nsidx {
        0 => {
            for i in 0..n {
                t.push_str(&format!("{} 2 {}\n", nm(i), nm(i + 1)));
            }
        }
        1 => {
            for i in 0..n {
                t.push_str(&format!("p{:0w$}- 2 p{:0w$}\n", i, (i + 1) % n, w = w));
            }
        }
        2 => {
            for i in 0..n {
                t.push_str(&format!("q{:0w$} ? q{:0w$}\n", i, (i + 1) % n, w = w));
            }
        }
        3 => {
            // through a substance property
            t.push_str(&format!("sub {{\n  p const q 3 {}\n}}\n{} p of sub\n", nm(0), nm(n.saturating_sub(1))));
            for i in 0..n.saturating_sub(1) {
                t.push_str(&format!("{} 2 {}\n", nm(i), nm(i + 1)));
            }
        }
        4 => {
            // through prefix splits and plurals
            for i in 0..n {
                let r = match i % 3 {
                    0 => format!("k{}", nm(i + 1)),
                    1 => format!("{}s", nm(i + 1)),
                    _ => nm(i + 1),
                };
                t.push_str(&format!("{} 2 {}\n", nm(i), r));
            }
        }
        5 => {
            // reverse textual order
            for i in (0..n).rev() {
                t.push_str(&format!("{} {} + m\n", nm(i), nm(i + 1)));
            }
        }
        6 => {
            // bare aliases (no coefficient): u0 -> u1 -> ... -> u0
            for i in 0..n {
                t.push_str(&format!("{} {}\n", nm(i), nm(i + 1)));
            }
        }
        8 | 9 => {
            // closed through a prefix *used as a prefix*: prefix a_i is defined by unit b_i, and b_i
            // by the prefixed name a_(i+1) + y.  Shape 9 swaps the name spaces so that either the
            // prefixes or the units sort (and are visited) first.
            let (pa, ua) = if nsidx == 8 { ("p", "w") } else { ("w", "p") };
            t.push_str("y !\n");
            for i in 0..n {
                t.push_str(&format!("{}{:0w$}- 2 {}{:0w$}\n", pa, i, ua, i, w = w));
                t.push_str(&format!("{}{:0w$} 3 {}{:0w$}y\n", ua, i, pa, (i + 1) % n, w = w));
            }
            return (t, vec![format!("{}{:0w$}", ua, 0, w = w), format!("{}{:0w$}y", pa, 0, w = w), "y".to_string()]);
        }
        10 => {
            // prefixes defined directly by a name carrying the next prefix: p_i- 1000 p_(i+1)y
            t.push_str("y !\n");
            for i in 0..n {
                t.push_str(&format!("p{:0w$}- 1000 p{:0w$}y\n", i, (i + 1) % n, w = w));
            }
            return (t, vec![format!("p{:0w$}y", 0, w = w), "y".to_string()]);
        }
        _ => {
            // bare aliases whose names ALSO read as prefix + base unit: `kb0 kb1`, ... with `b_i !`.
            // The cycle is reported, yet each alias still evaluates through the prefix reading once
            // the prefix and the base units are loaded - which the earlier-sorting helper `aaa` ensures.
            let b = |i: u64| format!("b{:05}", i % n);
            t.push_str("z !\naaa 1 kz\n");
            for i in 0..n {
                t.push_str(&format!("{} !\n", b(i)));
            }
            for i in 0..n {
                t.push_str(&format!("k{} k{}\n", b(i), b(i + 1)));
            }
            return (t, vec![format!("k{}", b(0)), format!("3 {} -> k{}", b(0), b(0)), format!("k{} + k{}", b(0), b(0)), format!("units for k{}", b(0))]);
        }
    }
    (t, vec![nm(0), "m".to_string(), format!("3 m -> {}", nm(0))])
}

impl Space for C13 {
    fn meta(&self) -> Meta {
        Meta {
            id: "C13",
            level: "exploration",
            rule: "deviation-bounded: 0 deviations (shipped files) then every single deviation {delete line, duplicate line, swap with next, delete each token, replace each number by 0 / -1} of definitions.units (quick: every 40th line), currency.units and datepatterns.txt; every definitions file of <= 4 (thorough 5) tokens over a 29-token alphabet (incl. the numeral spellings `3.` and `.`), loaded into an empty context and into one holding `m !meter`; dependency cycles of length 1..12, 100, 1000, 2000, 5000 (thorough 10000) through 11 namespace shapes (units, prefixes, quantities, substance property, prefix/plural readings, reverse order, bare aliases, bare aliases that also read as prefix + base unit, prefix<->unit cycles closed by a prefix used as a prefix in both visiting orders, prefixes defined by names carrying the next prefix); forward/backward alias chains of 1000/3000 (thorough also 10000); 33 malformed substance/directive, base-unit long-name, zero-prefix, quantity-power-boundary and previous-answer-name files (self-naming `a !a`, mutual `a !b; b !a`, long names shadowed by units, prefixes and quantities); substance property values that are zero in 10 representations (exact, float zero from `0^.5`, float underflow `1e-300^1.5`, ...) x 3 positions, which must be reported, plus non-zero controls (`1e-400`), which must load; exponent boundary values (+-2^31, +-2^32, +-2^63, 1e30) on bases 0/1/-1 in prefix, unit, unit-power, substance and quantity definitions; name soups: every file of <= 4 (thorough 5) tokens over a 15-token alphabet of names, plurals, prefixed spellings and `!long` names, after which all 12 names are queried in 3 forms and canonicalized/looked up through the API; alias graphs: 1..2 (thorough 3) definitions `X Y` over 5 names x 12 targets reached through plural and prefix rules; four files with runs of 150000..1000000 blanks/tabs/continuations; every pair of quantity definitions over 8 names (some of which also read as a unit, a plural or a prefixed unit) x 4 dimensionalities, loaded after a base unit, a prefix and a unit (the same dimensionality twice is a reported conflict, after which every name must still answer); currency JSON truncated at every (quick: every 9th) byte, every field deleted or type-replaced (8 edits); date-pattern soups of 4 (thorough 5) tokens over a 17-token alphabet that has every kind of white space (space, tab, NBSP, U+3000, CR, LF). Oracle: the load returns without panic/abort/stack overflow within the limit; a problem is reported when a deleted single-line definition was needed by another and has no other reading, and for every cycle; afterwards `1 + 1` answers 2 and queries for loaded/missing names do not panic. Non-trivial = all; distinct by the text loaded".into(),
            assumptions: vec![
                "expression nesting depth beyond a few hundred is outside the statement's quantifier (chat-size / realistic files)".into(),
                "the reporting clause is judged only where the harness can prove the deleted definition has no other reading".into(),
            ],
            exhaustive: true,
            extra: json!({"families": self.fams.summary(), "needed_single_line_definitions": self.needed.len(), "deviation_kinds": DEVKINDS}),
        }
    }
    fn len(&self) -> u64 {
        self.fams.total()
    }
    fn describe(&self, idx: u64) -> String {
        let (f, d) = self.fams.locate(idx);
        let ns = self.soup_len.len();
        if f == 0 {
            let dv = &self.devs[d[0] as usize];
            let fname = ["definitions.units", "currency.units", "datepatterns.txt"][dv.file as usize];
            format!("{} line {}: {} {} | {}", fname, dv.line + 1, DEVKINDS[dv.kind as usize], if dv.kind >= 3 { format!("#{}", dv.tok) } else { String::new() }, engine::util::clip(&self.files[dv.file as usize][dv.line as usize], 80))
        } else if f <= ns {
            format!("soup[{}]: {:?}", if d[1] == 0 { "empty ctx" } else { "ctx with m" }, soup_text(d[0], self.soup_len[f - 1]))
        } else if f == ns + 1 {
            format!("cycle of length {} through {}", self.cyc_lens[d[0] as usize], ["units", "prefixes", "quantities", "a substance property", "prefix/plural readings", "units in reverse order", "bare aliases", "bare aliases that also read as prefix + base unit", "prefixes defined by units that use the next prefix as a prefix", "the same with units sorting before prefixes", "prefixes defined by a name carrying the next prefix"][d[1] as usize])
        } else if f == ns + 2 {
            format!("alias chain of {} {}", [1000, 3000, 10000][d[0] as usize], if d[1] == 0 { "forward" } else { "backward" })
        } else if f == ns + 3 {
            format!("substance file: {:?}", SUBSTANCE_FILES[d[0] as usize])
        } else if f == ns + 4 {
            format!("currency JSON cut at byte {}", self.json_cuts[d[0] as usize])
        } else if f == ns + 5 {
            format!("currency JSON edit {} at /{}", d[1], self.json_paths[d[0] as usize].join("/"))
        } else if f == ns + 7 {
            format!("substance property value file: {:?}", prop_value_file(d[0] as usize, d[1]))
        } else if f == ns + 8 {
            format!("exponent file: {:?}", exp_file(d[0], d[1], d[2]))
        } else if f >= ns + 9 && f < ns + 9 + self.name_lens {
            format!("name soup: {:?}", name_soup_text(d[0], (f - ns - 8) as u64))
        } else if f == ns + 9 + self.name_lens {
            format!("alias graph: {:?}", alias_graph_text(d[0]))
        } else if f == ns + 12 + self.name_lens {
            format!("quantity pair: {:?}", quantity_pair_text(&d))
        } else if f == ns + 11 + self.name_lens {
            if (d[0] as usize) < JSON_TAILS.len() {
                format!("currency JSON followed by {:?}", JSON_TAILS[d[0] as usize].0)
            } else {
                "currency JSON followed by a second copy of itself".to_string()
            }
        } else if f == ns + 10 + self.name_lens {
            format!("long run #{}: {}", d[0], long_run_text(d[0]).1)
        } else {
            format!("date patterns: {:?}", date_soup(d[0], if self.tier == "thorough" { 5 } else { 4 }))
        }
    }
    fn sample_indices(&self) -> Vec<u64> {
        self.fams.starts()
    }
    fn chunk(&self) -> u64 {
        64
    }
    fn heavy(&self) -> Vec<(u64, u64)> {
        // whole-file loads, long cycles and chains: everything except the token soups
        let mut out = vec![];
        let mut start = 0;
        for (name, _, size) in &self.fams.fams {
            if !name.contains("soup") {
                out.push((start, start + size));
            }
            start += size;
        }
        out
    }
    fn time_limit(&self, idx: u64) -> std::time::Duration {
        // the watchdog, not an oracle: loading and then querying a 10000-long alias chain or cycle is
        // quadratic (every canonicalisation walks the chain) and takes 40-80 s on an idle machine
        let name = self.fams.name(self.fams.locate(idx).0);
        std::time::Duration::from_secs(if name.starts_with("dependency c") { 900 } else { 60 })
    }
    fn abnormal(&self, idx: u64, kind: Abnormal, info: &str) -> Option<Violation> {
        Some(Violation {
            sig: format!("{} while loading: {}", engine::kind_name(kind), engine::util::normalise_panic(info)),
            detail: format!("{}: {}", self.describe(idx), info),
        })
    }
    fn run(&mut self, idx: u64) -> CaseOut {
        let (f, d) = self.fams.locate(idx);
        let ns = self.soup_len.len();
        if f == 0 {
            let dv = self.devs[d[0] as usize].clone();
            let text = self.deviated(&dv);
            let mut out = CaseOut::ok(format!("{}: {}", ["definitions", "currency", "datepatterns"][dv.file as usize], DEVKINDS[dv.kind as usize])).key(hash64(&text));
            match dv.file {
                0 => {
                    let mut ctx = Context::new();
                    ctx.use_humanize = false;
                    let (res, printed) = capture_stdout(|| ctx.load_definitions(&text));
                    ctx.load_date_file(rink_core::DATES_FILE.unwrap());
                    let reported = res.is_err() || !printed.trim().is_empty();
                    let mut extra = vec!["foot", "3 second -> minute"];
                    let missing;
                    if dv.kind == 0 {
                        if let Some(name) = self.needed.get(&dv.line) {
                            missing = name.clone();
                            extra.push(&missing);
                            if !reported {
                                out = out.viol(
                                    "removed definition that another needs is not reported",
                                    format!("deleting line {} (`{}`) left a dangling reference but the load reported nothing", dv.line + 1, name),
                                );
                            }
                        }
                    }
                    for (s, dt) in canaries(&mut ctx, &extra) {
                        out = out.viol(s, format!("{}: {}", self.describe(idx), dt));
                    }
                    out = out.count(if reported { "loads_reporting_a_problem" } else { "loads_silent" }, 1);
                }
                1 => {
                    let mut ctx = fresh_ctx();
                    let (res, _printed) = capture_stdout(|| ctx.load_currency(CURRENCY_JSON, &text));
                    let _ = res;
                    for (s, dt) in canaries(&mut ctx, &["USD", "3 EUR -> USD", "bitcoin"]) {
                        out = out.viol(s, format!("{}: {}", self.describe(idx), dt));
                    }
                }
                _ => {
                    let mut ctx = fresh_ctx();
                    ctx.registry.datepatterns.clear();
                    let (_r, _p) = capture_stdout(|| ctx.load_date_file(&text));
                    for (s, dt) in canaries(&mut ctx, &["#2020-01-02 03:04:05 +01:00#", "#jan 1, 1970#", "#12:30 pm#", "#2020-W03#", "now - #2000-01-01#"]) {
                        out = out.viol(s, format!("{}: {}", self.describe(idx), dt));
                    }
                }
            }
            return out;
        }
        if f <= ns {
            let text = soup_text(d[0], self.soup_len[f - 1]);
            let mut ctx = Context::new();
            ctx.use_humanize = false;
            if d[1] == 1 {
                let _ = ctx.load_definitions("m !meter\n");
            }
            let (res, printed) = capture_stdout(|| ctx.load_definitions(&text));
            let mut out = CaseOut::ok(if res.is_err() { "soup: error reported" } else if !printed.trim().is_empty() { "soup: complaint printed" } else { "soup: accepted silently" }).key(hash64(&(d[1], &text)));
            for (s, dt) in canaries(&mut ctx, &["a", "m", "a b", "b -> a"]) {
                out = out.viol(s, format!("{}: {}", self.describe(idx), dt));
            }
            return out;
        }
        if f == ns + 1 {
            let n = self.cyc_lens[d[0] as usize];
            let (text, probes) = cycle_text(n, d[1]);
            let mut ctx = Context::new();
            ctx.use_humanize = false;
            let (res, _printed) = capture_stdout(|| ctx.load_definitions(&text));
            let mut out = CaseOut::ok("cycle reported").key(hash64(&text));
            match &res {
                Err(e) if e.contains("cycle") || d[1] == 1 || d[1] == 2 => {}
                Err(e) => {
                    out.outcome = "cycle: other error".into();
                    out = out.viol("dependency cycle is not reported as such", format!("{}: {}", self.describe(idx), engine::util::clip(e, 300)));
                }
                Ok(()) => {
                    out.outcome = "cycle: silent".into();
                    out = out.viol("dependency cycle is not reported", self.describe(idx));
                }
            }
            if res.is_ok() && (d[1] == 1 || d[1] == 2) {
                out = out.viol("dependency cycle is not reported", self.describe(idx));
            }
            let pr: Vec<&str> = probes.iter().map(|s| s.as_str()).collect();
            for (s, dt) in canaries(&mut ctx, &pr) {
                out = out.viol(s, format!("{}: {}", self.describe(idx), dt));
            }
            return out;
        }
        if f == ns + 2 {
            let n = [1000u64, 3000, 10000][d[0] as usize];
            let mut text = String::from("m !meter\n");
            // forward: each name depends on the next larger one, so the first visited name pulls in the whole chain
            for i in 0..n {
                if d[1] == 0 {
                    if i + 1 < n {
                        text.push_str(&format!("c{:05} c{:05}\n", i, i + 1));
                    } else {
                        text.push_str(&format!("c{:05} 3 m\n", i));
                    }
                } else if i == 0 {
                    text.push_str("c00000 3 m\n");
                } else {
                    text.push_str(&format!("c{:05} c{:05}\n", i, i - 1));
                }
            }
            let mut ctx = Context::new();
            ctx.use_humanize = false;
            let (res, _p) = capture_stdout(|| ctx.load_definitions(&text));
            let mut out = CaseOut::ok("chain").key(hash64(&text));
            if let Err(e) = res {
                out = out.viol("acyclic chain is reported as a problem", engine::util::clip(&e, 300));
            }
            let last = format!("c{:05}", if d[1] == 0 { 0 } else { n - 1 });
            match eval_q(&ctx, &format!("{} -> m", last)) {
                Ok(r) => {
                    if !r.to_string().starts_with('3') {
                        out = out.viol("chain end has the wrong value", r.to_string());
                    }
                }
                Err(e) => out = out.viol("chain end does not resolve", e.to_string()),
            }
            for (s, dt) in canaries(&mut ctx, &[&last]) {
                out = out.viol(s, dt);
            }
            return out;
        }
        if f == ns + 3 {
            let text = SUBSTANCE_FILES[d[0] as usize];
            let mut ctx = Context::new();
            ctx.use_humanize = false;
            let (res, printed) = capture_stdout(|| ctx.load_definitions(text));
            let mut out = CaseOut::ok(if res.is_err() || !printed.trim().is_empty() { "substance file: reported" } else { "substance file: silent" }).key(hash64(text));
            for (s, dt) in canaries(&mut ctx, &["foo", "density of foo", "a of foo", "b of foo", "mass of foo", "p of foo", "q of foo", "3 m foo", "foo -> m", "bar", "2 foo", "foo_mass of foo", "1/m", "1/m^2", "5000 m", "0.002 m", "3 kilom", "1 q", "x", "y", "1/q", "search ans", "search an", "search _", "ans", "_", "units for ans", "3 ans -> x"]) {
                out = out.viol(s, format!("{}: {}", self.describe(idx), dt));
            }
            return out;
        }
        if f == ns + 11 + self.name_lens {
            let (tail, must_report): (String, bool) = if (d[0] as usize) < JSON_TAILS.len() {
                (JSON_TAILS[d[0] as usize].0.to_string(), JSON_TAILS[d[0] as usize].1)
            } else {
                (format!("\n{}", CURRENCY_JSON), true)
            };
            let text = format!("{}{}", CURRENCY_JSON.trim_end(), tail);
            let mut ctx = fresh_ctx();
            let (res, _p) = capture_stdout(|| ctx.load_currency(&text, rink_core::CURRENCY_FILE.unwrap()));
            let mut out = CaseOut::ok(if res.is_err() { "json with a tail: reported" } else { "json with a tail: accepted" }).key(hash64(&text));
            if must_report && res.is_ok() {
                out = out.viol("currency data that continues after a complete document is accepted without a report", self.describe(idx));
            }
            if !must_report && res.is_err() {
                out = out.viol("currency data followed by white space only is refused", format!("{}: {:?}", self.describe(idx), res));
            }
            for (s2, dt) in canaries(&mut ctx, &["USD", "3 EUR -> USD", "1 + 1"]) {
                out = out.viol(s2, format!("{}: {}", self.describe(idx), dt));
            }
            return out;
        }
        if f >= ns + 9 && f <= ns + 12 + self.name_lens {
            let (text, probes): (String, Vec<String>) = if f == ns + 12 + self.name_lens {
                let mut pr: Vec<String> = QNAMES.iter().map(|s| s.to_string()).collect();
                pr.extend(["b", "bb", "ka", "area of q"].iter().map(|s| s.to_string()));
                (quantity_pair_text(&d), pr)
            } else if f < ns + 9 + self.name_lens {
                (name_soup_text(d[0], (f - ns - 8) as u64), NAME_PROBES.iter().map(|s| s.to_string()).collect())
            } else if f == ns + 9 + self.name_lens {
                let mut pr: Vec<String> = ALIAS_NAMES.iter().chain(ALIAS_TARGETS.iter()).map(|s| s.to_string()).collect();
                pr.sort();
                pr.dedup();
                (alias_graph_text(d[0]), pr)
            } else {
                (long_run_text(d[0]).0, vec!["a".to_string(), "b".to_string(), "c".to_string()])
            };
            let mut ctx = Context::new();
            ctx.use_humanize = false;
            let (res, printed) = capture_stdout(|| ctx.load_definitions(&text));
            let reported = res.is_err() || !printed.trim().is_empty();
            let fam = if f < ns + 9 + self.name_lens { "name soup" } else if f == ns + 9 + self.name_lens { "alias graph" } else if f == ns + 10 + self.name_lens { "long run" } else { "quantity pair" };
            let mut out = CaseOut::ok(&format!("{}: {}", fam, if reported { "reported" } else { "accepted" })).key(hash64(&text));
            // every name, alone and in the other query forms, and through the lookup API
            let mut qs: Vec<String> = vec![];
            for n in &probes {
                qs.push(n.clone());
                qs.push(format!("3 {}", n));
                qs.push(format!("units for {}", n));
            }
            qs.push(format!("3 {} -> {}", probes[0], probes[1]));
            qs.push(format!("{} + {}", probes[0], probes[1]));
            let refs: Vec<&str> = qs.iter().map(|s| s.as_str()).collect();
            for (s2, dt) in canaries(&mut ctx, &refs) {
                out = out.viol(s2, format!("{}: {}", self.describe(idx), dt));
            }
            for n in &probes {
                let c1 = ctx.canonicalize(n);
                let l1 = ctx.lookup(n);
                // and they are functions of the name
                if c1 != ctx.canonicalize(n) || l1 != ctx.lookup(n) {
                    out = out.viol("lookup of a name answers differently the second time", format!("{}: {}", self.describe(idx), n));
                }
            }
            if f == ns + 10 + self.name_lens && reported {
                out = out.viol("a file that only has long runs of blanks is reported as faulty", format!("{}: {:?} {}", self.describe(idx), res.err().map(|e| engine::util::clip(&e, 200)), engine::util::clip(&printed, 200)));
            }
            return out;
        }
        if f == ns + 8 {
            let text = exp_file(d[0], d[1], d[2]);
            let mut ctx = Context::new();
            ctx.use_humanize = false;
            let (res, printed) = capture_stdout(|| ctx.load_definitions(&text));
            let reported = res.is_err() || !printed.trim().is_empty();
            let mut out = CaseOut::ok(if reported { "exponent file: reported" } else { "exponent file: accepted" }).key(hash64(&text));
            for (s, dt) in canaries(&mut ctx, &["u", "v", "ku", "3 m -> u", "p of foo", "foo"]) {
                out = out.viol(s, format!("{}: {}", self.describe(idx), dt));
            }
            return out;
        }
        if f == ns + 7 {
            let text = prop_value_file(d[0] as usize, d[1]);
            let zero = PROP_VALUES[d[0] as usize].1;
            let mut ctx = Context::new();
            ctx.use_humanize = false;
            let (res, printed) = capture_stdout(|| ctx.load_definitions(&text));
            let reported = res.is_err() || !printed.trim().is_empty();
            let mut out = CaseOut::ok(if reported { "property value: reported" } else { "property value: accepted" }).key(hash64(&text));
            if zero && !reported {
                out = out.viol("zero-valued substance property accepted without a report", self.describe(idx));
            }
            if !zero && reported {
                out = out.viol("non-zero substance property refused", format!("{}: {:?} {}", self.describe(idx), res, printed));
            }
            for (s, dt) in canaries(&mut ctx, &["foo", "p of foo", "q of foo", "density of foo", "a of foo", "b of foo", "3 m foo", "3 s foo", "a of 3 s foo", "b of 3 m foo", "2 foo", "foo / 2"]) {
                out = out.viol(s, format!("{}: {}", self.describe(idx), dt));
            }
            return out;
        }
        if f == ns + 4 {
            let cut = self.json_cuts[d[0] as usize];
            let text = &CURRENCY_JSON[..cut];
            let mut ctx = Context::new();
            ctx.use_humanize = false;
            let (res, _p) = capture_stdout(|| ctx.load_currency(text, rink_core::CURRENCY_FILE.unwrap()));
            let mut out = CaseOut::ok("json truncation").key(hash64(text));
            if res.is_ok() && cut < CURRENCY_JSON.trim_end().len() {
                out = out.viol("truncated currency JSON accepted without a report", format!("cut at {}", cut));
            }
            for (s, dt) in canaries(&mut ctx, &["USD", "EUR"]) {
                out = out.viol(s, dt);
            }
            return out;
        }
        if f == ns + 5 {
            let mut root: Value = serde_json::from_str(CURRENCY_JSON).unwrap();
            json_edit(&mut root, &self.json_paths[d[0] as usize], d[1]);
            let text = serde_json::to_string(&root).unwrap();
            let mut ctx = fresh_ctx();
            let (res, _p) = capture_stdout(|| ctx.load_currency(&text, rink_core::CURRENCY_FILE.unwrap()));
            let mut out = CaseOut::ok(if res.is_err() { "json edit: reported" } else { "json edit: accepted" }).key(hash64(&text));
            for (s, dt) in canaries(&mut ctx, &["USD", "3 EUR -> USD", "bitcoin", "BTC", "price of bitcoin", "1 bitcoin -> USD"]) {
                out = out.viol(s, format!("{}: {}", self.describe(idx), dt));
            }
            return out;
        }
        let text = date_soup(d[0], if self.tier == "thorough" { 5 } else { 4 });
        let mut ctx = fresh_ctx_cached();
        ctx.registry.datepatterns.clear();
        let (_r, _p) = capture_stdout(|| ctx.load_date_file(&text));
        let mut out = CaseOut::ok("date pattern soup").key(hash64(&text));
        for (s, dt) in canaries(&mut ctx, &["#2020#", "#2020-01-02#", "#10 T#", "#-:#", "#T#", "#12#"]) {
            out = out.viol(s, format!("{}: {}", self.describe(idx), dt));
        }
        out
    }
}

fn name_soup_text(mut k: u64, len: u64) -> String {
    let mut parts = vec![];
    for _ in 0..len {
        parts.push(NAMESOUP[(k % NAMESOUP.len() as u64) as usize]);
        k /= NAMESOUP.len() as u64;
    }
    parts.reverse();
    let mut s = String::from("k- 1000\n");
    for p in parts {
        if !s.ends_with('\n') {
            s.push(' ');
        }
        s.push_str(p);
    }
    s.push('\n');
    s
}

fn quantity_pair_text(d: &[u64]) -> String {
    format!("b !\nk- 1000\na 3 b^2\n{} ? {}\n{} ? {}\n", QNAMES[d[0] as usize], QDIMS[d[1] as usize], QNAMES[d[2] as usize], QDIMS[d[3] as usize])
}

fn alias_graph_text(mut k: u64) -> String {
    let at = (ALIAS_NAMES.len() * ALIAS_TARGETS.len()) as u64;
    let n = if k < at {
        1
    } else if k < at + at * at {
        k -= at;
        2
    } else {
        k -= at + at * at;
        3
    };
    let mut s = String::from("b !\nc !\nk- 1000\n");
    for _ in 0..n {
        let pair = k % at;
        k /= at;
        s.push_str(&format!("{} {}\n", ALIAS_NAMES[(pair / ALIAS_TARGETS.len() as u64) as usize], ALIAS_TARGETS[(pair % ALIAS_TARGETS.len() as u64) as usize]));
    }
    s
}

/// Files in which the only unusual thing is the length of a run of blanks, tabs or continuation
/// lines (the tokenizer must not use stack for each one).
fn long_run_text(k: u64) -> (String, String) {
    match k {
        0 => (format!("a !\nb{}2 a\nc 3 a\n", " ".repeat(1_000_000)), "a million spaces between name and definition".into()),
        1 => (format!("a !\nb 2{}a\nc 3 a\n", "\t".repeat(1_000_000)), "a million tabs inside a definition".into()),
        2 => (format!("a !\nb 2 a\nc 3{}a\n", "\\\n".repeat(200_000)), "200000 continuation lines inside a definition".into()),
        _ => (format!("a !\nb 2 a\nc 3{}a\n", " \\\r\n\t".repeat(150_000)), "150000 blank + CRLF continuation + tab groups".into()),
    }
}

fn soup_text(mut k: u64, len: u64) -> String {
    let mut parts = vec![];
    for _ in 0..len {
        parts.push(SOUP[(k % SOUP.len() as u64) as usize]);
        k /= SOUP.len() as u64;
    }
    parts.reverse();
    let mut s = String::new();
    for p in parts {
        if !s.is_empty() && !s.ends_with('\n') {
            s.push(' ');
        }
        s.push_str(p);
    }
    s
}

fn date_soup(mut k: u64, len: u32) -> String {
    let mut s = String::new();
    for _ in 0..len {
        s.push_str(DATESOUP[(k % DATESOUP.len() as u64) as usize]);
        k /= DATESOUP.len() as u64;
    }
    s
}

/// Date-pattern soups only need an empty registry with the clock pinned.
fn fresh_ctx_cached() -> Context {
    let mut ctx = Context::new();
    ctx.use_humanize = false;
    ctx.set_time(fixed_now());
    ctx
}
