//! C14 — date arithmetic is consistent.

use crate::common::*;
use chrono::{NaiveDate, TimeZone};
use chrono_tz::Tz;
use engine::util::{hash64, Fams};
use engine::{CaseOut, Meta, Space};
use num_bigint::BigInt;
use num_traits::Signed;
use rink_core::output::{DateReply, QueryReply};
use rink_core::Context;
use serde_json::json;
use std::str::FromStr;

const YEARS: [i64; 11] = [1, 4, 100, 1582, 1600, 1900, 1970, 2000, 2024, 2038, 9999];
const DAYS: [(u32, u32); 6] = [(1, 1), (2, 28), (2, 29), (3, 1), (6, 30), (12, 31)];
const TIMES: [(u32, u32, u32, u32); 4] = [(0, 0, 0, 0), (12, 0, 0, 1), (23, 59, 59, 999_999_999), (2, 30, 0, 0)];
const ZONES: [&str; 11] = ["", "+00:00", "-05:00", "+05:45", "+14:00", "-12:00", "+0530", "US/Pacific", "Europe/London", "Asia/Kolkata", "Australia/Lord_Howe"];
const MONTHS: [&str; 12] = ["January", "feb", "March", "apr", "May", "jun", "July", "aug", "September", "oct", "November", "dec"];
const WDAYS: [&str; 7] = ["Mon", "tuesday", "Wed", "thu", "Friday", "sat", "Sunday"];
const NFORMS: u64 = 10;

/// proleptic Gregorian days since 1970-01-01 (Hinnant's algorithm), independent of chrono
fn days_from_civil(y: i64, m: u32, d: u32) -> i64 {
    let y = if m <= 2 { y - 1 } else { y };
    let era = if y >= 0 { y } else { y - 399 } / 400;
    let yoe = y - era * 400;
    let mp = (m as i64 + 9) % 12;
    let doy = (153 * mp + 2) / 5 + d as i64 - 1;
    let doe = yoe * 365 + yoe / 4 - yoe / 100 + doy;
    era * 146097 + doe - 719468
}

fn is_leap(y: i64) -> bool {
    (y % 4 == 0 && y % 100 != 0) || y % 400 == 0
}

fn day_of_year(y: i64, m: u32, d: u32) -> i64 {
    days_from_civil(y, m, d) - days_from_civil(y, 1, 1) + 1
}

#[derive(Clone, Debug, PartialEq)]
struct Civil {
    y: i64,
    mo: u32,
    d: u32,
    h: u32,
    mi: u32,
    s: u32,
    ns: u32,
}

/// nanoseconds since the unix epoch of a civil time at offset `off` seconds east
fn instant(c: &Civil, off: i64) -> i128 {
    let secs = days_from_civil(c.y, c.mo, c.d) as i128 * 86400 + (c.h * 3600 + c.mi * 60 + c.s) as i128 - off as i128;
    secs * 1_000_000_000 + c.ns as i128
}

/// offset in seconds for a zone spelling at a civil time; Err(()) when the local time does not exist
fn zone_offset(z: &str, c: &Civil) -> Result<Vec<i64>, ()> {
    if z.is_empty() {
        return Ok(vec![0]);
    }
    if z.starts_with('+') || z.starts_with('-') {
        let sign = if z.starts_with('-') { -1 } else { 1 };
        let digits: String = z[1..].chars().filter(|c| c.is_ascii_digit()).collect();
        let (h, m): (i64, i64) = (digits[..2].parse().unwrap(), digits[2..].parse().unwrap());
        return Ok(vec![sign * (h * 3600 + m * 60)]);
    }
    let tz = Tz::from_str(z).map_err(|_| ())?;
    let naive = NaiveDate::from_ymd_opt(c.y as i32, c.mo, c.d).ok_or(())?.and_hms_nano_opt(c.h, c.mi, c.s, c.ns).ok_or(())?;
    use chrono::offset::LocalResult;
    use chrono::Offset;
    let r = match tz.from_local_datetime(&naive) {
        LocalResult::None => return Err(()),
        LocalResult::Single(d) => vec![d.offset().fix().local_minus_utc() as i64],
        LocalResult::Ambiguous(a, b) => vec![a.offset().fix().local_minus_utc() as i64, b.offset().fix().local_minus_utc() as i64],
    };
    Ok(r)
}

/// Read a DateReply back: (instant in ns, civil fields, offset seconds)
fn read_reply(r: &DateReply) -> Option<(i128, Civil, i64)> {
    let s = &r.rfc3339;
    // [+-]YYYY..-MM-DDTHH:MM:SS[.f](Z|+HH:MM|-HH:MM)
    let (sign, rest) = match s.as_bytes()[0] {
        b'-' => (-1, &s[1..]),
        b'+' => (1, &s[1..]),
        _ => (1, &s[..]),
    };
    let t = rest.find('T')?;
    let date: Vec<&str> = rest[..t].split('-').collect();
    if date.len() != 3 {
        return None;
    }
    let y: i64 = sign * date[0].parse::<i64>().ok()?;
    let (mo, d): (u32, u32) = (date[1].parse().ok()?, date[2].parse().ok()?);
    let tail = &rest[t + 1..];
    let (time, off) = if let Some(st) = tail.strip_suffix('Z') {
        (st, 0i64)
    } else {
        let p = tail.rfind(|c| c == '+' || c == '-')?;
        let o = &tail[p + 1..];
        let (oh, om) = o.split_once(':')?;
        let v = oh.parse::<i64>().ok()? * 3600 + om.parse::<i64>().ok()? * 60;
        (&tail[..p], if &tail[p..p + 1] == "-" { -v } else { v })
    };
    let (hms, frac) = match time.split_once('.') {
        Some((a, b)) => (a, b),
        None => (time, ""),
    };
    let p: Vec<&str> = hms.split(':').collect();
    if p.len() != 3 {
        return None;
    }
    let mut ns: u32 = 0;
    if !frac.is_empty() {
        let mut f = frac.to_string();
        while f.len() < 9 {
            f.push('0');
        }
        ns = f[..9].parse().ok()?;
    }
    let c = Civil { y, mo, d, h: p[0].parse().ok()?, mi: p[1].parse().ok()?, s: p[2].parse().ok()?, ns };
    Some((instant(&c, off), c, off))
}

fn time_text(c: &Civil, with_sec: bool) -> String {
    if !with_sec {
        return format!("{:02}:{:02}", c.h, c.mi);
    }
    if c.ns == 0 {
        format!("{:02}:{:02}:{:02}", c.h, c.mi, c.s)
    } else {
        let f = format!("{:09}", c.ns);
        format!("{:02}:{:02}:{:02}.{}", c.h, c.mi, c.s, f.trim_end_matches('0'))
    }
}

fn literal(form: u64, c: &Civil, z: &str) -> Option<String> {
    let zz = if z.is_empty() { String::new() } else { format!(" {}", z) };
    let date = format!("{:04}-{:02}-{:02}", c.y, c.mo, c.d);
    let h12 = || {
        let h = if c.h % 12 == 0 { 12 } else { c.h % 12 };
        let f = if c.ns == 0 { String::new() } else { format!(".{}", format!("{:09}", c.ns).trim_end_matches('0')) };
        format!("{:02}:{:02}:{:02}{} {}", h, c.mi, c.s, f, if c.h >= 12 { "PM" } else { "am" })
    };
    let mname = MONTHS[(c.mo - 1) as usize];
    Some(match form {
        0 => format!("{} {}{}", date, time_text(c, true), zz),
        1 => format!("{}T{}{}", date, time_text(c, true), zz),
        2 if c.h == 0 && c.mi == 0 && c.s == 0 && c.ns == 0 && z.is_empty() => date,
        3 if c.s == 0 && c.ns == 0 => format!("{} {}{}", date, time_text(c, false), zz),
        4 => format!("{:04}-{:03} {}{}", c.y, day_of_year(c.y, c.mo, c.d), time_text(c, true), zz),
        5 => format!("{} {}, {} {}{}", mname, c.d, c.y, time_text(c, true), zz),
        6 => format!("{} {} {} {}{}", mname, c.d, c.y, h12(), zz),
        7 => format!("{} {} {} {}{}", c.y, mname, c.d, time_text(c, true), zz),
        8 if z.is_empty() => {
            let wd = (days_from_civil(c.y, c.mo, c.d) + 3).rem_euclid(7); // 1970-01-01 was a Thursday
            format!("{} {} {} {} {:04}", WDAYS[wd as usize], mname, c.d, time_text(c, true), c.y)
        }
        9 => format!("{} {}, {} {}{} AD", mname, c.d, c.y, time_text(c, true), zz),
        _ => return None,
    })
}

const DURS: [(&str, i128); 26] = [
    ("1 ns", 1),
    ("999 ns", 999),
    ("1000 ns", 1000),
    ("1500000 ns", 1_500_000),
    ("1 microsecond", 1000),
    ("1 ms", 1_000_000),
    ("1.5 ms", 1_500_000),
    ("0.000000001 s", 1),
    ("1 s", 1_000_000_000),
    ("59.999999999 s", 59_999_999_999),
    ("1 min", 60_000_000_000),
    ("1 hour", 3_600_000_000_000),
    ("1 day", 86_400_000_000_000),
    ("0.1 day", 8_640_000_000_000),
    ("1 week", 604_800_000_000_000),
    ("365.2422 day", 31_556_926_080_000_000),
    ("1e9 s", 1_000_000_000_000_000_000),
    ("1 day + 1 ns", 86_400_000_000_001),
    ("123456789.123456789 s", 123_456_789_123_456_789),
    ("1|8 s", 125_000_000),
    ("3 ms + 7 ns", 3_000_007),
    ("1 ms - 1 ns", 999_999),
    ("2 ms + 500 microsecond", 2_500_000),
    ("1001 microsecond", 1_001_000),
    ("1 s + 1 ns", 1_000_000_001),
    ("10000 day", 864_000_000_000_000_000),
];

pub struct C14 {
    fams: Fams,
    instants: Vec<(Civil, &'static str)>,
    core: Vec<usize>,
    tznames: Vec<String>,
    nows: Vec<(i64, &'static str)>,
    ctx: Lazy<Context>,
}

const TIME_ONLY: [&str; 12] = [
    "02:30", "02:30 US/Pacific", "02:30:00 Europe/London", "02:30 am America/New_York", "01:30 US/Pacific", "23:59:59.5 +05:45",
    "12:00 am", "12:00 pm -12:00", "00:00 Australia/Lord_Howe", "02:15 Australia/Lord_Howe", "03:30 Asia/Kolkata", "01:30 Europe/London",
];

impl C14 {
    pub fn new(tier: &str) -> C14 {
        let thorough = tier == "thorough";
        let mut instants = vec![];
        for y in YEARS {
            for (mo, d) in DAYS {
                if mo == 2 && d == 29 && !is_leap(y) {
                    continue;
                }
                for (h, mi, s, ns) in TIMES {
                    for z in ZONES {
                        instants.push((Civil { y, mo, d, h, mi, s, ns }, z));
                    }
                }
            }
        }
        // a core for the quadratic / zone sweeps
        let step = if thorough { 7 } else { 29 };
        let core: Vec<usize> = (0..instants.len()).step_by(step).collect();
        let tznames: Vec<String> = chrono_tz::TZ_VARIANTS.iter().map(|t| t.name().to_string()).collect();
        // `now` values: an ordinary day and spring-forward / fall-back days of several zones (UTC noon)
        let nows: Vec<(i64, &'static str)> = vec![
            (1_700_000_000, "2023-11-14 (ordinary)"),
            (1_710_072_000, "2024-03-10 12:00Z (US spring forward)"),
            (1_711_886_400, "2024-03-31 12:00Z (EU spring forward)"),
            (1_730_635_200, "2024-11-03 12:00Z (US fall back)"),
            (1_728_144_000, "2024-10-05 16:00Z (Lord Howe spring-forward day, local Oct 6)"),
            (1_710_054_000, "2024-03-10 07:00Z (US gap day, early)"),
            (1_711_846_800, "2024-03-31 01:00Z (EU gap hour)"),
        ];
        let mut fams = Fams::default();
        fams.add("literal denotes the instant its pattern describes", vec![instants.len() as u64, NFORMS]);
        fams.add("fractional seconds of 1..12 digits", vec![12, 3]);
        fams.add("time-only literals x clock", vec![TIME_ONLY.len() as u64, nows.len() as u64]);
        fams.add("offsets in literals: +-HH:MM and +-HHMM", vec![2, 100, 4, 2]);
        fams.add("(d + t) - d = t and (d - t) + t = d", vec![core.len() as u64, DURS.len() as u64, 2]);
        fams.add("d1 - d2 against the proleptic Gregorian calendar", vec![core.len() as u64, core.len() as u64]);
        fams.add("conversion to every named zone keeps the instant", vec![tznames.len() as u64, if thorough { 12 } else { 4 }]);
        fams.add("conversion to +-HH:MM keeps the instant or is refused", vec![2, 100, 100, 2]);
        // fraction digits are decimal digits: every 4-digit fraction, and for 5..9 digits 2000 values spread over the range
        fams.add("fractional seconds: every 4-digit fraction; 2000 values of each length 5..9", vec![10_000 + 5 * 2000]);
        // the offset conversion as the public AST carries it: any i64 number of seconds
        fams.add("conversion to an offset given through the API (Conversion::Offset(i64))", vec![API_OFFS.len() as u64, 4]);
        C14 { fams, instants, core, tznames, nows, ctx: Lazy::new() }
    }

    fn inst_text(&self, i: usize) -> (String, Result<Vec<i128>, ()>) {
        let (c, z) = &self.instants[i];
        let text = literal(0, c, z).unwrap();
        let offs = zone_offset(z, c);
        if sub_minute(&offs) {
            return (format!("#{}#", text), Err(()));
        }
        let want = offs.map(|offs| offs.iter().map(|o| instant(c, *o)).collect());
        (format!("#{}#", text), want)
    }
}

fn date_of(r: Result<QueryReply, rink_core::output::QueryError>) -> Result<DateReply, String> {
    match r {
        Ok(QueryReply::Date(d)) => Ok(d),
        Ok(o) => Err(format!("reply kind {}", reply_kind(&o))),
        Err(e) => Err(format!("error: {}", e)),
    }
}

fn seconds_of(r: Result<QueryReply, rink_core::output::QueryError>) -> Result<Rat, String> {
    let n = match r {
        Ok(QueryReply::Number(p)) => p.raw_value,
        Ok(QueryReply::Duration(d)) => d.raw.raw_value,
        Ok(o) => return Err(format!("reply kind {}", reply_kind(&o))),
        Err(e) => return Err(format!("error: {}", e)),
    }
    .ok_or("no raw value")?;
    let d = dims_of(&n);
    if d.len() != 1 || d.get("s") != Some(&1) {
        return Err(format!("not a time: {:?}", d));
    }
    numeric_to_rat(&n.value).ok_or_else(|| "float".to_string())
}

fn ns_rat(ns: i128) -> Rat {
    Rat::new(BigInt::from(ns), BigInt::from(1_000_000_000i64))
}

impl Space for C14 {
    fn meta(&self) -> Meta {
        Meta {
            id: "C14",
            level: "exploration",
            rule: "instants: 11 boundary years x {Jan 1, Feb 28, Feb 29, Mar 1, Jun 30, Dec 31} x 4 times (incl. .000000001 and .999999999) x 11 zone spellings (none, 6 fixed offsets incl. +HHMM, 4 named zones), each written in 10 pattern forms (ISO space/T, date only, no seconds, ordinal, month-name US/astronomical, 12-hour, ctime, AD); fractional seconds of 1..12 digits, every 4-digit fraction and 2000 spread values of each length 5..9; 12 time-only literals x 7 clock values incl. DST-gap days; literal offsets +-HH:MM / +-HHMM for all HH 00..99; (d+t)-d=t and (d-t)+t=d for a core of instants x 26 whole-nanosecond durations in 8 units; d1-d2 for all ordered pairs of the core against own days-from-civil arithmetic; conversion of instants to every chrono-tz zone name and to every +-HH:MM with HH,MM in 00..99; conversion to 26 offsets handed over as the AST carries them (Conversion::Offset(i64) through Context::eval_query: inside +-24 h, at +-86400, at the ends of i32, 2^32 + k, i64::MIN/MAX) x 4 instants. Non-trivial = judged; distinct by query text".into(),
            assumptions: vec![
                "chrono-tz zone data gives the offset of a named zone at a local time (trusted base)".into(),
                "patterns that do not determine a date (ISO week without weekday, month-day without year) are not judged".into(),
                "an error mentioning the representable range is accepted for sums that leave years 0001-9999".into(),
            ],
            exhaustive: true,
            extra: json!({"families": self.fams.summary(), "instants": self.instants.len(), "zones": self.tznames.len()}),
        }
    }
    fn len(&self) -> u64 {
        self.fams.total()
    }
    fn describe(&self, idx: u64) -> String {
        self.plan(idx).0
    }
    fn sample_indices(&self) -> Vec<u64> {
        self.fams.starts()
    }
    fn chunk(&self) -> u64 {
        2000
    }
    fn reset(&mut self) {
        self.ctx.clear();
    }
    fn run(&mut self, idx: u64) -> CaseOut {
        let (desc, plan) = self.plan(idx);
        let q = desc.split("  [now").next().unwrap().to_string();
        let ctx = self.ctx.get(fresh_ctx);
        let mut out = CaseOut::ok("").key(hash64(&desc));
        match plan {
            Plan::Skip => return CaseOut::ok("skipped (form does not apply)"),
            Plan::Literal { want, civil } => {
                if let Some(now) = civil.as_ref().and_then(|c| c.2) {
                    use chrono::TimeZone;
                    ctx.set_time(chrono::Local.timestamp_opt(now, 0).unwrap());
                } else {
                    ctx.set_time(fixed_now());
                }
                let got = date_of(eval_q(ctx, &q));
                match (want, got) {
                    (Ok(w), Ok(d)) => {
                        out.outcome = "literal -> instant".into();
                        match read_reply(&d) {
                            Some((inst, c, off)) => {
                                if !w.contains(&inst) {
                                    out = out.viol("date literal denotes another instant", format!("`{}` -> {} ({} ns) but the pattern describes {:?}", q, d.rfc3339, inst, w));
                                }
                                if let Some((wc, offs, _)) = &civil {
                                    if offs.contains(&off) && &c != wc {
                                        out = out.viol("date literal shows other civil fields", format!("`{}` -> {:?} expected {:?}", q, c, wc));
                                    }
                                }
                                let f = (d.year as i64, d.month as u32, d.day as u32, d.hour as u32, d.minute as u32, d.second as u32, d.nanosecond as u32);
                                if f != (c.y, c.mo, c.d, c.h, c.mi, c.s, c.ns) {
                                    out = out.viol("DateReply fields disagree with its rfc3339 text", format!("`{}`: {:?} vs {}", q, f, d.rfc3339));
                                }
                            }
                            None => out = out.viol("unreadable rfc3339", d.rfc3339.clone()),
                        }
                    }
                    (Err(()), Err(_)) => out.outcome = "nonexistent/invalid literal refused".into(),
                    (Err(()), Ok(d)) => {
                        out.outcome = "invalid literal accepted".into();
                        out = out.viol("date literal that describes no instant is accepted", format!("`{}` -> {}", q, d.rfc3339));
                    }
                    (Ok(_), Err(e)) => {
                        out.outcome = "valid literal refused".into();
                        out = out.viol("date literal matching a documented pattern is refused", format!("`{}`: {}", q, e));
                    }
                }
            }
            Plan::AddSub { d_inst, t_ns, neg } => {
                ctx.set_time(fixed_now());
                let dq = q.split(" ||| ").collect::<Vec<_>>();
                // law 1: (d + t) - d = t
                match seconds_of(eval_q(ctx, dq[0])) {
                    Ok(g) => {
                        out.outcome = "arithmetic".into();
                        let w = ns_rat(if neg { -t_ns } else { t_ns });
                        if g != w {
                            out = out.viol("(d + t) - d differs from t", format!("`{}` -> {} s, expected {} s", dq[0], g, w));
                        }
                    }
                    Err(e) if e.contains("out of range") => out.outcome = "out of the representable range".into(),
                    Err(e) => out = out.viol("(d + t) - d fails", format!("`{}`: {}", dq[0], e)),
                }
                // law 2: (d - t) + t = d
                match date_of(eval_q(ctx, dq[1])) {
                    Ok(d) => match read_reply(&d) {
                        Some((inst, _, _)) => {
                            if !d_inst.contains(&inst) {
                                out = out.viol("(d - t) + t differs from d", format!("`{}` -> {}", dq[1], d.rfc3339));
                            }
                        }
                        None => out = out.viol("unreadable rfc3339", d.rfc3339.clone()),
                    },
                    Err(e) if e.contains("out of range") => {}
                    Err(e) => out = out.viol("(d - t) + t fails", format!("`{}`: {}", dq[1], e)),
                }
            }
            Plan::Diff { a, b } => {
                ctx.set_time(fixed_now());
                match seconds_of(eval_q(ctx, &q)) {
                    Ok(g) => {
                        out.outcome = "difference".into();
                        let ok = a.iter().any(|x| b.iter().any(|y| g == ns_rat(x - y)));
                        if !ok {
                            out = out.viol("d1 - d2 disagrees with the proleptic Gregorian calendar", format!("`{}` -> {} s, expected {} s", q, g, ns_rat(a[0] - b[0])));
                        }
                    }
                    Err(e) => out = out.viol("d1 - d2 fails", format!("`{}`: {}", q, e)),
                }
            }
            Plan::ConvertApi { inst, off, source } => {
                use rink_core::ast::{Conversion, Query};
                use rink_core::parsing::text_query;
                ctx.set_time(fixed_now());
                let mut it = text_query::TokenIterator::new(&source).peekable();
                let expr = match text_query::parse_query(&mut it) {
                    Query::Expr(e) => e,
                    other => panic!("date literal did not parse as an expression: {:?}", other),
                };
                let query = Query::Convert(expr, Conversion::Offset(off), None, rink_core::output::Digits::Default);
                let got = date_of(ctx.eval_query(&query));
                let legal = off > -86400 && off < 86400;
                match (legal, got) {
                    (false, Err(_)) => out.outcome = "API offset beyond +-24h refused".into(),
                    (false, Ok(d)) => {
                        out.outcome = "API offset beyond +-24h accepted".into();
                        out = out.viol("offset outside +-24 h is accepted", format!("`{}` -> {}", q, d.rfc3339));
                    }
                    (true, Ok(_)) if off % 60 != 0 => {
                        // seconds in an offset cannot be read back from the rfc3339 text (as for local mean time)
                        out.outcome = "API offset converted (seconds in the offset: instant not read back)".into();
                    }
                    (true, Ok(d)) => {
                        out.outcome = "API offset converted".into();
                        match read_reply(&d) {
                            Some((g, _, shown)) => {
                                if !inst.contains(&g) {
                                    out = out.viol("zone conversion changes the instant", format!("`{}` -> {}", q, d.rfc3339));
                                }
                                if off % 60 == 0 && shown != off {
                                    out = out.viol("conversion shows another offset", format!("`{}` -> {}", q, d.rfc3339));
                                }
                            }
                            None => out = out.viol("unreadable rfc3339", d.rfc3339.clone()),
                        }
                    }
                    (true, Err(e)) => {
                        out.outcome = "conversion refused".into();
                        out = out.viol("valid zone conversion refused", format!("`{}`: {}", q, e));
                    }
                }
            }
            Plan::Convert { inst, offset } => {
                ctx.set_time(fixed_now());
                let got = date_of(eval_q(ctx, &q));
                match (offset, got) {
                    (Some(Err(())), Err(_)) => out.outcome = "offset beyond +-24h refused".into(),
                    (Some(Err(())), Ok(d)) => {
                        out.outcome = "offset beyond +-24h accepted".into();
                        out = out.viol("offset outside +-24 h is accepted", format!("`{}` -> {}", q, d.rfc3339));
                    }
                    (o, Ok(d)) => {
                        out.outcome = "converted".into();
                        match read_reply(&d) {
                            Some((g, _, off)) => {
                                if !inst.contains(&g) {
                                    out = out.viol("zone conversion changes the instant", format!("`{}` -> {}", q, d.rfc3339));
                                }
                                if let Some(Ok(w)) = o {
                                    if w != off {
                                        out = out.viol("conversion shows another offset", format!("`{}` -> {}", q, d.rfc3339));
                                    }
                                }
                            }
                            None => out = out.viol("unreadable rfc3339", d.rfc3339.clone()),
                        }
                    }
                    (_, Err(e)) => {
                        out.outcome = "conversion refused".into();
                        out = out.viol("valid zone conversion refused", format!("`{}`: {}", q, e));
                    }
                }
            }
        }
        out
    }
}

/// Offsets that are not whole minutes (local mean time before standard time) cannot be read
/// back from an rfc3339 string: such cases are skipped and counted.
fn sub_minute(offs: &Result<Vec<i64>, ()>) -> bool {
    matches!(offs, Ok(v) if v.iter().any(|o| o % 60 != 0))
}

/// Offsets as a caller of the public API can hand them over: inside and outside +-24 h, at the
/// ends of i32 and beyond (a conversion that narrows the number wraps them back into range).
const API_OFFS: [i64; 26] = [
    0, 1, -1, 60, 3600, -19800, 45 * 60, 86399, -86399, 86340, 86400, -86400, 86401, 362340, 2147483647, 2147483648, -2147483648, -2147483649,
    4294967296, 4294967296 + 3600, -4294967296 - 19800, 3 * 4294967296 + 7200, 1099511627776, i64::MAX, i64::MIN, i64::MIN + 1,
];

enum Plan {
    /// the same through Query::Convert(expr, Conversion::Offset(off), ..) built by the harness
    ConvertApi { inst: Vec<i128>, off: i64, source: String },
    Skip,
    /// want: acceptable instants or Err = must be refused; civil: (fields, offsets, now override)
    Literal { want: Result<Vec<i128>, ()>, civil: Option<(Civil, Vec<i64>, Option<i64>)> },
    AddSub { d_inst: Vec<i128>, t_ns: i128, neg: bool },
    Diff { a: Vec<i128>, b: Vec<i128> },
    Convert { inst: Vec<i128>, offset: Option<Result<i64, ()>> },
}

impl C14 {
    fn plan(&self, idx: u64) -> (String, Plan) {
        let (f, d) = self.fams.locate(idx);
        match f {
            0 => {
                let (c, z) = &self.instants[d[0] as usize];
                match literal(d[1], c, z) {
                    None => ("(form does not apply)".into(), Plan::Skip),
                    Some(t) => {
                        let offs = zone_offset(z, c);
                        if sub_minute(&offs) {
                            return (format!("#{}#", t), Plan::Skip);
                        }
                        let want = offs.clone().map(|o| o.iter().map(|x| instant(c, *x)).collect());
                        (format!("#{}#", t), Plan::Literal { want, civil: offs.ok().map(|o| (c.clone(), o, None)) })
                    }
                }
            }
            1 => {
                let n = d[0] as usize + 1;
                let digit = ["1", "9", "0"][d[1] as usize];
                let frac: String = std::iter::repeat(digit).take(n).collect::<String>();
                let frac = if digit == "0" { format!("{}1", &frac[..n - 1]) } else { frac };
                let q = format!("#2020-01-02 03:04:05.{}#", frac);
                if n > 9 {
                    return (q, Plan::Literal { want: Err(()), civil: None });
                }
                let mut f9 = frac.clone();
                while f9.len() < 9 {
                    f9.push('0');
                }
                let c = Civil { y: 2020, mo: 1, d: 2, h: 3, mi: 4, s: 5, ns: f9.parse().unwrap() };
                (q, Plan::Literal { want: Ok(vec![instant(&c, 0)]), civil: Some((c, vec![0], None)) })
            }
            2 => {
                let lit = TIME_ONLY[d[0] as usize];
                let (now, _) = self.nows[d[1] as usize];
                // parse our own literal: HH:MM[:SS[.f]] [am|pm] [zone]
                let mut parts = lit.split(' ');
                let hms = parts.next().unwrap();
                let mut zone = "";
                let mut mer = "";
                for p in parts {
                    if p == "am" || p == "pm" {
                        mer = p;
                    } else {
                        zone = p;
                    }
                }
                let t: Vec<&str> = hms.split(':').collect();
                let mut h: u32 = t[0].parse().unwrap();
                if mer == "am" && h == 12 {
                    h = 0;
                }
                if mer == "pm" && h != 12 {
                    h += 12;
                }
                let (s, ns) = if t.len() > 2 {
                    let (a, b) = t[2].split_once('.').unwrap_or((t[2], ""));
                    let mut f9 = b.to_string();
                    while f9.len() < 9 {
                        f9.push('0');
                    }
                    (a.parse().unwrap(), f9.parse().unwrap())
                } else {
                    (0, 0)
                };
                // today's date = the date of `now` in that zone
                let nowdt = chrono::Utc.timestamp_opt(now, 0).unwrap();
                use chrono::Datelike;
                let local_date = if zone.is_empty() {
                    nowdt.date_naive()
                } else if zone.starts_with('+') || zone.starts_with('-') {
                    let o = zone_offset(zone, &Civil { y: 2000, mo: 1, d: 1, h: 0, mi: 0, s: 0, ns: 0 }).unwrap()[0];
                    (nowdt + chrono::Duration::seconds(o)).date_naive()
                } else {
                    nowdt.with_timezone(&Tz::from_str(zone).unwrap()).date_naive()
                };
                let c = Civil { y: local_date.year() as i64, mo: local_date.month(), d: local_date.day(), h, mi: t[1].parse().unwrap(), s, ns };
                let offs = zone_offset(zone, &c);
                let want = offs.clone().map(|o| o.iter().map(|x| instant(&c, *x)).collect());
                (
                    format!("#{}#  [now = {}]", lit, self.nows[d[1] as usize].1),
                    Plan::Literal { want, civil: Some((c, offs.unwrap_or_default(), Some(now))) },
                )
            }
            3 => {
                let sign = if d[0] == 0 { '+' } else { '-' };
                let hh = d[1] as i64;
                let mm = [0i64, 30, 45, 59][d[2] as usize];
                let z = if d[3] == 0 { format!("{}{:02}:{:02}", sign, hh, mm) } else { format!("{}{:02}{:02}", sign, hh, mm) };
                let total = (hh * 3600 + mm * 60) * if sign == '-' { -1 } else { 1 };
                let c = Civil { y: 2020, mo: 6, d: 15, h: 12, mi: 0, s: 0, ns: 0 };
                let q = format!("#2020-06-15 12:00 {}#", z);
                if total.abs() >= 86400 {
                    (q, Plan::Literal { want: Err(()), civil: None })
                } else {
                    (q, Plan::Literal { want: Ok(vec![instant(&c, total)]), civil: Some((c, vec![total], None)) })
                }
            }
            4 => {
                let (dt, di) = self.inst_text(self.core[d[0] as usize]);
                let (tt, tns) = DURS[d[1] as usize];
                let neg = d[2] == 1;
                let t = if neg { format!("-({})", tt) } else { format!("({})", tt) };
                let q = format!("({} + {}) - {} ||| ({} - {}) + {}", dt, t, dt, dt, t, t);
                match di {
                    Ok(i) => (q, Plan::AddSub { d_inst: i, t_ns: tns, neg }),
                    Err(()) => (q, Plan::Skip),
                }
            }
            5 => {
                let (at, ai) = self.inst_text(self.core[d[0] as usize]);
                let (bt, bi) = self.inst_text(self.core[d[1] as usize]);
                let q = format!("{} - {}", at, bt);
                match (ai, bi) {
                    (Ok(a), Ok(b)) => (q, Plan::Diff { a, b }),
                    _ => (q, Plan::Skip),
                }
            }
            6 => {
                let z = &self.tznames[d[0] as usize];
                let (dt, di) = self.inst_text(self.core[(d[1] as usize * 5 + 1) % self.core.len()]);
                let q = format!("{} -> \"{}\"", dt, z);
                match di {
                    Ok(i) if z != "GB" => {
                        use chrono::Offset;
                        let tz = Tz::from_str(z).unwrap();
                        let secs = (i[0].div_euclid(1_000_000_000)) as i64;
                        let off = chrono::Utc.timestamp_opt(secs, 0).single().map(|u| u.with_timezone(&tz).offset().fix().local_minus_utc());
                        match off {
                            Some(o) if o % 60 == 0 => (q, Plan::Convert { inst: i, offset: None }),
                            _ => (q, Plan::Skip),
                        }
                    }
                    _ => (q, Plan::Skip),
                }
            }
            9 => {
                let off = API_OFFS[d[0] as usize];
                let (dt, di) = self.inst_text(self.core[(d[1] as usize * 7 + 1) % self.core.len()]);
                let q = format!("{} -> Conversion::Offset({}) [API]", dt, off);
                match di {
                    Ok(i) => (q, Plan::ConvertApi { inst: i, off, source: dt }),
                    Err(()) => (q, Plan::Skip),
                }
            }
            8 => {
                let (len, val): (usize, u64) = if d[0] < 10_000 {
                    (4, d[0])
                } else {
                    let k = d[0] - 10_000;
                    let len = 5 + (k / 2000) as usize;
                    let range = 10u64.pow(len as u32);
                    // a stride coprime to the range visits well-spread values (last digit varies)
                    (len, ((k % 2000) * 4_999_999 + 7) % range)
                };
                let frac = format!("{:0width$}", val, width = len);
                let q = format!("#2020-01-02 03:04:05.{}#", frac);
                let mut f9 = frac.clone();
                while f9.len() < 9 {
                    f9.push('0');
                }
                let c = Civil { y: 2020, mo: 1, d: 2, h: 3, mi: 4, s: 5, ns: f9.parse().unwrap() };
                (q, Plan::Literal { want: Ok(vec![instant(&c, 0)]), civil: Some((c, vec![0], None)) })
            }
            _ => {
                let sign = if d[0] == 0 { '+' } else { '-' };
                let (hh, mm) = (d[1] as i64, d[2] as i64);
                let (dt, di) = self.inst_text(self.core[(d[3] as usize * 11 + 2) % self.core.len()]);
                let total = (hh * 3600 + mm * 60) * if sign == '-' { -1 } else { 1 };
                let q = format!("{} -> {}{:02}:{:02}", dt, sign, hh, mm);
                match di {
                    Ok(i) => (q, Plan::Convert { inst: i, offset: Some(if total.abs() >= 86400 { Err(()) } else { Ok(total) }) }),
                    Err(()) => (q, Plan::Skip),
                }
            }
        }
    }
}

#[allow(dead_code)]
fn _u(r: &Rat) -> bool {
    r.is_negative()
}
