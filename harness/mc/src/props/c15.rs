//! C15 — queries are pure; only `ans` carries state between them.
//! Explicit-state exploration of query histories on one real Context against a one-register
//! model: every transition of every history is executed on the implementation.

use crate::common::*;
use engine::util::{decode, hash64, Fams};
use engine::{Aggregate, CaseOut, Meta, Space};
use rink_core::output::{QueryError, QueryReply};
use rink_core::parsing::text_query;
use rink_core::types::{BaseUnit, BigInt, BigRat, Dimensionality, Number, Numeric};
use std::time::Duration;
use rink_core::Context;
use serde_json::{json, Value};

/// (query, is a plain expression)
const ALPHA: [(&str, bool); 16] = [
    ("3 m", true),
    ("ans * 2", true),
    ("_ + 1 m", true),
    ("ANS", true),
    ("1 m + 1 s", true),
    ("3 m -> ft", false),
    ("foot", true),
    ("units for m", false),
    ("search mil", false),
    ("3 s", true),
    ("water", true),
    ("#2020-01-01#", true),
    ("3 m -> ft;inch", false),
    ("ans -> digits 3", false),
    ("potato = 7 kg", true),
    ("potato", true),
];

/// Alphabet of the flag-toggling histories: six queries and the two settings changes a frontend
/// can make between queries (rink-js exposes setSavePreviousResult; the field is public).
const TOG: [(&str, bool); 6] = [("3 m", true), ("ans * 2", true), ("1 m + 1 s", true), ("3 m -> ft", false), ("7 kg", true), ("_ -> digits 3", false)];
const TOG_LETTERS: u64 = 8;

/// Every way of writing a conversion or command after a plain result: `2 m ; <this> ; ans`.
/// None of them is a plain expression, so the register must still hold 2 m afterwards.
const NON_PLAIN: [&str; 34] = [
    "7 m -> base 10", "7 m -> base 16", "7 m -> base 2", "7 m -> hex", "7 m -> oct", "7 m -> bin", "7 m -> digits", "7 m -> digits 10", "7 m -> digits 0",
    "7 m -> sci", "7 m -> eng", "7 m -> frac", "7 m -> fraction", "7 m -> ratio", "7 m -> m", "7 m -> 1 m", "7 m to m", "7 m in m", "7 m -> ft;inch", "7 m -> digits 3 base 10",
    "7 m -> base 10 ft", "7 -> base 10", "7 s -> base 10", "7 s -> s", "#2020-01-01# -> UTC", "#2020-01-01# -> +01:00", "100 K -> degC", "units for m", "factorize velocity",
    "search meter", "meter", "length", "water", "7 m -> to_string_does_not_exist",
];

/// Date patterns a user may add (datepatterns.txt in the working or config directory): slash and
/// dot dates in two orders each, so that some literals match only the later pattern of a pair.
const USER_PATTERNS: &str = "monthnum'/'fullday'/'fullyear\nfullday'/'monthnum'/'fullyear\nfullday'.'monthnum'.'fullyear\nmonthnum'.'fullday'.'fullyear\n";
/// Two small databases with the same numbers of units and quantities but other names and values:
/// a query to one context must not change what the other one answers (state kept outside any
/// Context - a thread-local memo, a static - would be shared by both).
const DB_A: &str = "m !meter\ns !second\nkg !kilogram\nlength ? m\ntime ? s\nvelocity ? length / time\nmass ? kg\nft 0.3048 m\nmin 60 s\n";
const DB_B: &str = "m !meter\ns !second\nkg !kilogram\nlength ? m\ntime ? s\nspeed ? length / time\nheft ? kg\nft 0.3 m\nmin 100 s\n";
const TWO_DB_QUERIES: [&str; 10] = ["factorize m / s", "units for m", "m / s", "3 m -> ft", "ft", "factorize kg m / s", "velocity", "speed", "1 min", "search fo"];
const DATE_LETTERS: [&str; 6] = ["#01/02/2020#", "#25/12/2020#", "#2020-01-05#", "#05.06.2020#", "#12.25.2020#", "3 m"];

fn ctx_with_user_patterns() -> Context {
    let mut c = fresh_ctx();
    c.load_date_file(USER_PATTERNS);
    c
}

pub struct C15 {
    fams: Fams,
    depth: u64,
    db_order: u32,
    /// never evaluated in this process: only forked copies of it answer queries
    pristine: Lazy<Context>,
    pristine_dates: Lazy<Context>,
    /// the subject's starting point, likewise only ever used inside a forked copy
    subject: Lazy<Context>,
    subject_dates: Lazy<Context>,
    reg_hash: Lazy<u64>,
}

impl C15 {
    pub fn new(tier: &str) -> C15 {
        let thorough = tier == "thorough";
        let depth = if thorough { 4 } else { 3 };
        let db_order = if thorough { 4 } else { 3 };
        let mut fams = Fams::default();
        fams.add("all histories to the depth bound, flag on", vec![1, (ALPHA.len() as u64).pow(depth as u32)]);
        // with the feature off nothing may ever be stored: one level shallower in the quick tier
        let d_off = if thorough { depth } else { depth - 1 };
        fams.add("all histories, flag off", vec![1, (ALPHA.len() as u64).pow(d_off as u32)]);
        fams.add("de Bruijn sequence on one long-lived context x flag", vec![2]);
        // histories in which the flag is switched between queries
        let d_tog = if thorough { 6 } else { 4 };
        fams.add("all histories over 6 queries + flag on + flag off", vec![TOG_LETTERS.pow(d_tog)]);
        fams.add("every conversion / command spelling between a plain result and a use of ans", vec![NON_PLAIN.len() as u64, 2]);
        fams.add("date literals on a context with overlapping user date patterns: all histories of depth 3", vec![(DATE_LETTERS.len() as u64).pow(3)]);
        fams.add("two small databases in one process: a query to one, then a query to the other", vec![TWO_DB_QUERIES.len() as u64, TWO_DB_QUERIES.len() as u64, 2]);
        C15 { fams, depth, db_order, pristine: Lazy::new(), pristine_dates: Lazy::new(), subject: Lazy::new(), subject_dates: Lazy::new(), reg_hash: Lazy::new() }
    }
}

fn de_bruijn(k: usize, n: usize) -> Vec<usize> {
    let mut a = vec![0usize; k * n];
    let mut seq = vec![];
    fn db(t: usize, p: usize, k: usize, n: usize, a: &mut Vec<usize>, seq: &mut Vec<usize>) {
        if t > n {
            if n % p == 0 {
                seq.extend_from_slice(&a[1..=p]);
            }
        } else {
            a[t] = a[t - p];
            db(t + 1, p, k, n, a, seq);
            for j in (a[t - p] + 1)..k {
                a[t] = j;
                db(t + 1, t, k, n, a, seq);
            }
        }
    }
    db(1, 1, k, n, &mut a, &mut seq);
    // make it cyclic-complete as a linear sequence
    let extra: Vec<usize> = seq[..n - 1].to_vec();
    seq.extend(extra);
    seq
}

fn ser(r: &Result<QueryReply, QueryError>) -> Value {
    match r {
        Ok(v) => json!({"ok": serde_json::to_value(v).unwrap_or(Value::Null)}),
        Err(e) => json!({"err": serde_json::to_value(e).unwrap_or(Value::Null)}),
    }
}

fn cheap_fingerprint(c: &Context) -> (usize, usize, usize, usize, usize, usize, usize, usize, usize, usize, bool, bool) {
    let r = &c.registry;
    (
        r.units.len(),
        r.definitions.len(),
        r.prefixes.len(),
        r.quantities.len(),
        r.substances.len(),
        r.docs.len(),
        r.categories.len(),
        r.base_units.len(),
        r.datepatterns.len(),
        r.substance_symbols.len(),
        c.use_humanize,
        c.save_previous_result,
    )
}

/// The register crosses a process boundary (the reference is evaluated in a forked copy): exact
/// text of numerator and denominator, or the bits of a float, plus the unit's powers.
fn enc_num(n: &Number) -> Value {
    let value = match &n.value {
        Numeric::Rational(r) => json!({"r": [r.numer().to_string(), r.denom().to_string()]}),
        Numeric::Float(f) => json!({"f": f.to_bits()}),
    };
    json!({"v": value, "u": n.unit.iter().map(|(k, p)| json!([k.to_string(), p])).collect::<Vec<_>>()})
}

fn dec_num(v: &Value) -> Number {
    let value = if let Some(r) = v["v"].get("r") {
        let big = |x: &Value| BigInt::from_str_radix(x.as_str().unwrap(), 10).ok().unwrap();
        Numeric::Rational(BigRat::ratio(&big(&r[0]), &big(&r[1])))
    } else {
        Numeric::Float(f64::from_bits(v["v"]["f"].as_u64().unwrap()))
    };
    let unit: Dimensionality = v["u"].as_array().unwrap().iter().map(|e| (BaseUnit::new(e[0].as_str().unwrap()), e[1].as_i64().unwrap())).collect();
    Number { value, unit }
}

fn state_key(reg: &Option<Number>, flag: bool) -> u64 {
    match reg {
        None => hash64(&("none", flag)),
        Some(n) => hash64(&(format!("{:?}", n.value.to_rational().0.to_string()), n.value.to_rational().1.to_string(), dims_str(&dims_of(n)), flag)),
    }
}

struct Stepper<'a> {
    l: &'a mut Context,
    p: &'a mut Context,
    flag: bool,
    reg: Option<Number>,
    fp0: (usize, usize, usize, usize, usize, usize, usize, usize, usize, usize, bool, bool),
    states: Vec<u64>,
    transitions: u64,
    bad: Vec<(String, String)>,
    history: Vec<String>,
}

impl<'a> Stepper<'a> {
    /// `l`: a loaded context that has not answered anything yet (the caller runs in a forked copy
    /// of the worker, so this is a private copy); `p`: another one, which stays that way - the
    /// reference replies come from forked copies of it.
    fn new(l: &'a mut Context, p: &'a mut Context, flag: bool) -> Stepper<'a> {
        l.save_previous_result = flag;
        let fp0 = cheap_fingerprint(l);
        Stepper { l, p, flag, reg: None, fp0, states: vec![state_key(&None, flag)], transitions: 0, bad: vec![], history: vec![] }
    }

    fn hist_text(&self) -> String {
        self.history.join(" ; ")
    }

    fn set_flag(&mut self, on: bool) {
        self.history.push(format!("<flag {}>", if on { "on" } else { "off" }));
        self.l.save_previous_result = on;
        self.flag = on;
        self.fp0.11 = on;
        self.states.push(state_key(&self.reg, self.flag));
    }

    fn step(&mut self, letter: usize) {
        let (q, plain) = ALPHA[letter];
        self.step_q(q, plain)
    }

    fn step_q(&mut self, q: &str, plain: bool) {
        self.history.push(q.to_string());
        // subject: the public helper, on the long-lived context
        let t0 = chrono::Local::now();
        let got = rink_core::eval(self.l, q);
        let t1 = chrono::Local::now();
        let got_ser = ser(&got).to_string();
        // the clock is not state either: every query is answered at the time it is asked, as a
        // fresh context would (the helper reads the clock before evaluating)
        if self.l.now < t0 || self.l.now > t1 {
            self.bad.push((
                "the context's clock is not the time of the query".into(),
                format!("after [{}]: the context says {} for a query asked between {} and {}", self.hist_text(), self.l.now, t0, t1),
            ));
        }
        // reference: a context that has never answered a query - a forked copy of the loaded
        // database - with only the previous answer, the flag and the clock preset.  Nothing the
        // evaluation does to that copy can reach a later step.
        let reg_enc = self.reg.as_ref().map(enc_num);
        let (flag, now) = (self.flag, self.l.now);
        let p: &mut Context = self.p;
        let answer = engine::forked::in_fork(
            move || {
                p.previous_result = reg_enc.as_ref().map(dec_num);
                p.save_previous_result = flag;
                p.now = now;
                let want = {
                    let pr: &Context = &*p;
                    let mut it = text_query::TokenIterator::new(q.trim()).peekable();
                    let query = text_query::parse_query(&mut it);
                    pr.eval_query(&query)
                };
                // the model's transition: the most recent successful numeric result of a plain expression
                let mut new_reg: Option<Value> = None;
                if flag && plain {
                    match &want {
                        Ok(QueryReply::Number(p)) => new_reg = p.raw_value.as_ref().map(enc_num),
                        Ok(QueryReply::Duration(d)) => new_reg = d.raw.raw_value.as_ref().map(enc_num),
                        _ => {}
                    }
                }
                json!({"ser": ser(&want).to_string(), "reg": new_reg}).to_string().into_bytes()
            },
            Duration::from_secs(120),
        );
        let answer: Value = match answer {
            Ok(b) => serde_json::from_slice(&b).expect("reference reply is JSON"),
            Err(e) => panic!("the reference evaluation of `{}` after [{}] ended abnormally: {}", q, self.hist_text(), e),
        };
        let want_ser = answer["ser"].as_str().unwrap_or("").to_string();
        self.transitions += 1;
        if got_ser != want_ser {
            self.bad.push((
                "reply differs from the reply of a fresh context with the same previous answer".into(),
                format!("after [{}] (flag {}): got {} but a fresh context gives {}", self.hist_text(), self.flag, engine::util::clip(&got_ser, 300), engine::util::clip(&want_ser, 300)),
            ));
        }
        if !answer["reg"].is_null() {
            self.reg = Some(dec_num(&answer["reg"]));
        }
        if self.l.previous_result != self.reg {
            self.bad.push((
                format!("`ans` is not the model's register after a {} query", if plain { "plain-expression" } else { "conversion/command" }),
                format!("after [{}] (flag {}): ans = {:?} but the most recent successful numeric result of a plain expression is {:?}", self.hist_text(), self.flag, self.l.previous_result, self.reg),
            ));
            // resynchronise so that one defect is reported once per history, not at every later step
            self.reg = self.l.previous_result.clone();
        }
        if cheap_fingerprint(self.l) != self.fp0 {
            self.bad.push(("database or settings changed by a query".into(), format!("after [{}]: {:?} vs {:?}", self.hist_text(), cheap_fingerprint(self.l), self.fp0)));
        }
        self.states.push(state_key(&self.reg, self.flag));
    }

    fn full_dump_hash(&self) -> u64 {
        hash64(&format!("{:?}", self.l.registry))
    }
}

impl C15 {
    fn tog_depth(&self) -> usize {
        let n = self.fams.fams[3].1[0];
        let mut d = 0;
        let mut x = 1u64;
        while x < n {
            x *= TOG_LETTERS;
            d += 1;
        }
        d
    }
    fn hist_depth(&self, fam: usize) -> usize {
        let n = self.fams.fams[fam].1[1];
        let mut d = 0;
        let mut x = 1u64;
        while x < n {
            x *= ALPHA.len() as u64;
            d += 1;
        }
        d
    }
}

impl Space for C15 {
    fn meta(&self) -> Meta {
        Meta {
            id: "C15",
            level: "model_checking",
            rule: format!("explicit-state exploration over a 16-query alphabet (one per reply kind and per way of touching ans: numbers, ans/_/ANS uses, an error, conversions, a definition lookup, units for, search, a time-valued result, a substance, a date, a unit list, an inline definition and a use of its name) with the feature flag on and off: every history up to depth {} is replayed through rink_core::eval on a real Context that has answered nothing before (each history runs in a forked copy of the worker process, on its copy of a database that the worker loaded and never queried), and one long-lived Context is fed a de Bruijn sequence B(16,{}) (every length-{} window from a different non-initial state). Plus every history of depth {} over 6 queries and the two settings changes <flag on>/<flag off> made between queries on one context (initially off). Plus `2 m ; X ; ans` for 34 spellings X of conversions and commands (every base/digits/notation modifier, `to`/`in`, unit lists, date and temperature conversions, units for / factorize / search / definition lookups). Plus all depth-3 histories over 5 date literals and a number on a context that has user date patterns with overlapping readings loaded (reference: never-queried copies of a context with the same patterns). Plus two small databases (same numbers of units and quantities, other names and values) in one process: 10 x 10 ordered query pairs, one to each, in both orders - the second reply must be what that database answers in a process where nothing else was asked (state kept outside any Context would be shared). Model = one register (ans) and the flag. At every transition: serialised reply == reply of a context that has never answered a query (a forked copy of the loaded database, discarded after the one reply, so that no state hidden behind `&Context` can reach a later step) with previous_result := register; ans == register; the context's clock lies between the start and the end of the call (each query is answered at the time it is asked); registry sizes/settings unchanged; full Debug dump of the registry compared at the end of histories. state = (register value, dimensionality, flag)", self.depth, self.db_order, self.db_order, self.tog_depth()),
            assumptions: vec![
                "the model register is updated from the never-queried context's reply, so the reference is exactly the statement's 'fresh context with the same previous answer'; the register crosses the process boundary as exact numerator/denominator text (or float bits) plus unit powers".into(),
                "a forked copy of a loaded Context behaves like a newly loaded one: loading is deterministic (C12) and the copy shares no memory with later steps".into(),
                "full registry dumps are compared at the end of every 16th history (every history in the thorough tier) and every 512 steps of the de Bruijn run; cheap size fingerprints at every transition".into(),
            ],
            exhaustive: true,
            extra: json!({"alphabet": ALPHA.iter().map(|a| a.0).collect::<Vec<_>>(), "depth": self.depth, "de_bruijn_order": self.db_order}),
        }
    }
    fn len(&self) -> u64 {
        self.fams.total()
    }
    fn describe(&self, idx: u64) -> String {
        let (f, d) = self.fams.locate(idx);
        if f < 2 {
            let letters = decode(d[1], &vec![ALPHA.len() as u64; self.hist_depth(f)]);
            format!("flag {}: {}", f == 0, letters.iter().map(|i| ALPHA[*i as usize].0).collect::<Vec<_>>().join(" ; "))
        } else if f == 6 {
            let (first, second) = if d[2] == 0 { ("A", "B") } else { ("B", "A") };
            format!("database {}: {} ; then database {}: {}", first, TWO_DB_QUERIES[d[0] as usize], second, TWO_DB_QUERIES[d[1] as usize])
        } else if f == 5 {
            let letters = decode(d[0], &vec![DATE_LETTERS.len() as u64; 3]);
            format!("user date patterns loaded: {}", letters.iter().map(|i| DATE_LETTERS[*i as usize]).collect::<Vec<_>>().join(" ; "))
        } else if f == 4 {
            format!("flag {}: 2 m ; {} ; ans", d[1] == 1, NON_PLAIN[d[0] as usize])
        } else if f == 3 {
            let letters = decode(d[0], &vec![TOG_LETTERS; self.tog_depth()]);
            format!("flag initially off: {}", letters.iter().map(|i| match *i { 6 => "<flag on>", 7 => "<flag off>", k => TOG[k as usize].0 }).collect::<Vec<_>>().join(" ; "))
        } else {
            format!("flag {}: de Bruijn sequence B(16,{}) on one context", d[0] == 1, self.db_order)
        }
    }
    fn chunk(&self) -> u64 {
        16
    }
    fn time_limit(&self, idx: u64) -> std::time::Duration {
        // the de Bruijn runs are single long cases
        std::time::Duration::from_secs(if self.fams.locate(idx).0 == 2 { 1800 } else { 300 })
    }
    fn heavy(&self) -> Vec<(u64, u64)> {
        let n = self.fams.fams[0].2 + self.fams.fams[1].2;
        vec![(n, n + 2)]
    }
    fn reset(&mut self) {
        self.pristine.clear();
        self.pristine_dates.clear();
        self.subject.clear();
        self.subject_dates.clear();
    }
    fn coverage_extra(&self, agg: &Aggregate) -> Value {
        json!({
            "states": agg.keys.len(),
            "transitions": agg.counters.get("transitions").copied().unwrap_or(0),
            "traces_validated_against_impl": agg.counters.get("histories").copied().unwrap_or(0),
            "full_registry_dumps_compared": agg.counters.get("full_dumps").copied().unwrap_or(0),
        })
    }
    fn run(&mut self, idx: u64) -> CaseOut {
        // Everything the case needs is loaded here, in the worker, and used only in the forked
        // copy that runs the case: the worker's contexts never answer a query.
        let (f, _) = self.fams.locate(idx);
        self.reg_hash.get(|| hash64(&format!("{:?}", fresh_ctx().registry)));
        if f == 6 {
            // small databases, loaded inside the forked copy
        } else if f == 5 {
            self.pristine_dates.get(ctx_with_user_patterns);
            self.subject_dates.get(ctx_with_user_patterns);
        } else {
            self.pristine.get(fresh_ctx);
            self.subject.get(fresh_ctx);
        }
        let limit = if f == 2 { Duration::from_secs(1700) } else { Duration::from_secs(280) };
        let this: &mut C15 = self;
        engine::forked::case_in_fork(move || this.run_here(idx), limit)
    }
}

impl C15 {
    fn run_here(&mut self, idx: u64) -> CaseOut {
        let (f, d) = self.fams.locate(idx);
        if f == 6 {
            let small = |text: &str| {
                let mut c = Context::new();
                c.use_humanize = false;
                c.save_previous_result = true;
                let _ = c.load_definitions(text);
                c.set_time(fixed_now());
                c
            };
            let (first_db, second_db) = if d[2] == 0 { (DB_A, DB_B) } else { (DB_B, DB_A) };
            let (q1, q2) = (TWO_DB_QUERIES[d[0] as usize], TWO_DB_QUERIES[d[1] as usize]);
            let ask = |c: &mut Context, q: &str| {
                let r = rink_core::eval(c, q);
                ser(&r).to_string()
            };
            // reference: the second database asked in a process in which nothing else was ever asked
            let reference = engine::forked::in_fork(
                || {
                    let mut c = small(second_db);
                    ask(&mut c, q2).into_bytes()
                },
                Duration::from_secs(60),
            );
            let reference = match reference {
                Ok(b) => String::from_utf8_lossy(&b).to_string(),
                Err(e) => panic!("the reference evaluation of `{}` ended abnormally: {}", q2, e),
            };
            let mut a = small(first_db);
            let mut b = small(second_db);
            let _ = ask(&mut a, q1);
            let got = ask(&mut b, q2);
            let mut out = CaseOut::ok("two databases").count("transitions", 2).count("histories", 1);
            out.keys = vec![hash64(&("two-db", d[0], d[1], d[2]))];
            if got != reference {
                out = out.viol(
                    "a query to one context changes the reply of another context",
                    format!("after `{}` on the other database, `{}` answers {} but answers {} when asked first", q1, q2, engine::util::clip(&got, 300), engine::util::clip(&reference, 300)),
                );
            }
            return out;
        }
        let flag = if f < 2 { f == 0 } else if f == 3 { false } else if f == 4 { d[1] == 1 } else if f == 5 { true } else { d[0] == 1 };
        let hist_depth = if f < 2 { self.hist_depth(f) } else { 0 };
        let thorough = self.depth >= 4;
        let tog_depth = if f == 3 { self.tog_depth() } else { 0 };
        let ref_hash = *self.reg_hash.get(|| hash64(&format!("{:?}", fresh_ctx().registry)));
        let (l, p) = if f == 5 {
            (self.subject_dates.0.as_mut().expect("loaded by run()"), self.pristine_dates.0.as_mut().expect("loaded by run()"))
        } else {
            (self.subject.0.as_mut().expect("loaded by run()"), self.pristine.0.as_mut().expect("loaded by run()"))
        };
        let mut st = Stepper::new(l, p, flag);
        let mut full = 0u64;
        if f < 2 {
            let letters = decode(d[1], &vec![ALPHA.len() as u64; hist_depth]);
            for l in letters {
                st.step(l as usize);
            }
            if thorough || d[1] % 16 == 0 {
                full += 1;
                if st.full_dump_hash() != ref_hash {
                    st.bad.push(("database changed by a query (full dump)".into(), format!("after [{}]", st.hist_text())));
                }
            }
        } else if f == 5 {
            let letters = decode(d[0], &vec![DATE_LETTERS.len() as u64; 3]);
            for l in letters {
                st.step_q(DATE_LETTERS[l as usize], true);
            }
        } else if f == 4 {
            st.step_q("2 m", true);
            st.step_q(NON_PLAIN[d[0] as usize], false);
            st.step_q("ans", true);
        } else if f == 3 {
            let letters = decode(d[0], &vec![TOG_LETTERS; tog_depth]);
            for l in letters {
                match l {
                    6 => st.set_flag(true),
                    7 => st.set_flag(false),
                    k => st.step_q(TOG[k as usize].0, TOG[k as usize].1),
                }
            }
            if thorough || d[0] % 64 == 0 {
                full += 1;
                if st.full_dump_hash() != ref_hash {
                    st.bad.push(("database changed by a query (full dump)".into(), format!("after [{}]", st.hist_text())));
                }
            }
        } else {
            let seq = de_bruijn(ALPHA.len(), self.db_order as usize);
            for (i, l) in seq.iter().enumerate() {
                st.step(*l);
                st.history.clear(); // keep messages short: the window is what matters
                st.history.push(ALPHA[*l].0.to_string());
                if i % 512 == 511 {
                    full += 1;
                    if st.full_dump_hash() != ref_hash {
                        st.bad.push(("database changed by a query (full dump)".into(), format!("de Bruijn step {}", i)));
                        break;
                    }
                }
            }
            full += 1;
            if st.full_dump_hash() != ref_hash {
                st.bad.push(("database changed by a query (full dump)".into(), "end of de Bruijn run".to_string()));
            }
        }
        let mut out = CaseOut::ok(if f < 2 { "history" } else if f == 3 { "history with flag changes" } else if f == 4 { "conversion spelling history" } else if f == 5 { "history of date literals, user patterns" } else { "de Bruijn run" });
        out.keys = st.states.clone();
        out = out.count("transitions", st.transitions).count("histories", 1).count("full_dumps", full);
        // one report per distinct signature per history
        let mut seen = std::collections::BTreeSet::new();
        for (s, dt) in st.bad {
            if seen.insert(s.clone()) {
                out = out.viol(s, dt);
            }
        }
        out
    }
}
