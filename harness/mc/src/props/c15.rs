//! C15 — queries are pure; only `ans` carries state between them.
//! Explicit-state exploration of query histories on one real Context against a one-register
//! model: every transition of every history is executed on the implementation.

use crate::common::*;
use engine::util::{decode, hash64, Fams};
use engine::{Aggregate, CaseOut, Meta, Space};
use rink_core::output::{QueryError, QueryReply};
use rink_core::parsing::text_query;
use rink_core::types::Number;
use rink_core::Context;
use serde_json::{json, Value};

/// (query, is a plain expression)
const ALPHA: [(&str, bool); 16] = [
    ("3 m", true),
    ("ans * 2", true),
    ("_ + 1 m", true),
    ("ANS", true),
    ("1 m + 1 s", true),
    ("3 m -> ft", false),
    ("foot", true),
    ("units for m", false),
    ("search mil", false),
    ("3 s", true),
    ("water", true),
    ("#2020-01-01#", true),
    ("3 m -> ft;inch", false),
    ("ans -> digits 3", false),
    ("potato = 7 kg", true),
    ("potato", true),
];

/// Alphabet of the flag-toggling histories: six queries and the two settings changes a frontend
/// can make between queries (rink-js exposes setSavePreviousResult; the field is public).
const TOG: [(&str, bool); 6] = [("3 m", true), ("ans * 2", true), ("1 m + 1 s", true), ("3 m -> ft", false), ("7 kg", true), ("_ -> digits 3", false)];
const TOG_LETTERS: u64 = 8;

/// Every way of writing a conversion or command after a plain result: `2 m ; <this> ; ans`.
/// None of them is a plain expression, so the register must still hold 2 m afterwards.
const NON_PLAIN: [&str; 34] = [
    "7 m -> base 10", "7 m -> base 16", "7 m -> base 2", "7 m -> hex", "7 m -> oct", "7 m -> bin", "7 m -> digits", "7 m -> digits 10", "7 m -> digits 0",
    "7 m -> sci", "7 m -> eng", "7 m -> frac", "7 m -> fraction", "7 m -> ratio", "7 m -> m", "7 m -> 1 m", "7 m to m", "7 m in m", "7 m -> ft;inch", "7 m -> digits 3 base 10",
    "7 m -> base 10 ft", "7 -> base 10", "7 s -> base 10", "7 s -> s", "#2020-01-01# -> UTC", "#2020-01-01# -> +01:00", "100 K -> degC", "units for m", "factorize velocity",
    "search meter", "meter", "length", "water", "7 m -> to_string_does_not_exist",
];

/// Date patterns a user may add (datepatterns.txt in the working or config directory): slash and
/// dot dates in two orders each, so that some literals match only the later pattern of a pair.
const USER_PATTERNS: &str = "monthnum'/'fullday'/'fullyear\nfullday'/'monthnum'/'fullyear\nfullday'.'monthnum'.'fullyear\nmonthnum'.'fullday'.'fullyear\n";
const DATE_LETTERS: [&str; 6] = ["#01/02/2020#", "#25/12/2020#", "#2020-01-05#", "#05.06.2020#", "#12.25.2020#", "3 m"];

fn ctx_with_user_patterns() -> Context {
    let mut c = fresh_ctx();
    c.load_date_file(USER_PATTERNS);
    c
}

pub struct C15 {
    fams: Fams,
    depth: u64,
    db_order: u32,
    pristine: Lazy<Context>,
    pristine_dates: Lazy<Context>,
    reg_hash: Lazy<u64>,
}

impl C15 {
    pub fn new(tier: &str) -> C15 {
        let thorough = tier == "thorough";
        let depth = if thorough { 4 } else { 3 };
        let db_order = if thorough { 4 } else { 3 };
        let mut fams = Fams::default();
        fams.add("all histories to the depth bound, flag on", vec![1, (ALPHA.len() as u64).pow(depth as u32)]);
        // with the feature off nothing may ever be stored: one level shallower in the quick tier
        let d_off = if thorough { depth } else { depth - 1 };
        fams.add("all histories, flag off", vec![1, (ALPHA.len() as u64).pow(d_off as u32)]);
        fams.add("de Bruijn sequence on one long-lived context x flag", vec![2]);
        // histories in which the flag is switched between queries
        let d_tog = if thorough { 6 } else { 4 };
        fams.add("all histories over 6 queries + flag on + flag off", vec![TOG_LETTERS.pow(d_tog)]);
        fams.add("every conversion / command spelling between a plain result and a use of ans", vec![NON_PLAIN.len() as u64, 2]);
        fams.add("date literals on a context with overlapping user date patterns: all histories of depth 3", vec![(DATE_LETTERS.len() as u64).pow(3)]);
        C15 { fams, depth, db_order, pristine: Lazy::new(), pristine_dates: Lazy::new(), reg_hash: Lazy::new() }
    }
}

fn de_bruijn(k: usize, n: usize) -> Vec<usize> {
    let mut a = vec![0usize; k * n];
    let mut seq = vec![];
    fn db(t: usize, p: usize, k: usize, n: usize, a: &mut Vec<usize>, seq: &mut Vec<usize>) {
        if t > n {
            if n % p == 0 {
                seq.extend_from_slice(&a[1..=p]);
            }
        } else {
            a[t] = a[t - p];
            db(t + 1, p, k, n, a, seq);
            for j in (a[t - p] + 1)..k {
                a[t] = j;
                db(t + 1, t, k, n, a, seq);
            }
        }
    }
    db(1, 1, k, n, &mut a, &mut seq);
    // make it cyclic-complete as a linear sequence
    let extra: Vec<usize> = seq[..n - 1].to_vec();
    seq.extend(extra);
    seq
}

fn ser(r: &Result<QueryReply, QueryError>) -> Value {
    match r {
        Ok(v) => json!({"ok": serde_json::to_value(v).unwrap_or(Value::Null)}),
        Err(e) => json!({"err": serde_json::to_value(e).unwrap_or(Value::Null)}),
    }
}

fn cheap_fingerprint(c: &Context) -> (usize, usize, usize, usize, usize, usize, usize, usize, usize, usize, bool, bool) {
    let r = &c.registry;
    (
        r.units.len(),
        r.definitions.len(),
        r.prefixes.len(),
        r.quantities.len(),
        r.substances.len(),
        r.docs.len(),
        r.categories.len(),
        r.base_units.len(),
        r.datepatterns.len(),
        r.substance_symbols.len(),
        c.use_humanize,
        c.save_previous_result,
    )
}

fn state_key(reg: &Option<Number>, flag: bool) -> u64 {
    match reg {
        None => hash64(&("none", flag)),
        Some(n) => hash64(&(format!("{:?}", n.value.to_rational().0.to_string()), n.value.to_rational().1.to_string(), dims_str(&dims_of(n)), flag)),
    }
}

struct Stepper<'a> {
    l: Context,
    p: &'a mut Context,
    flag: bool,
    reg: Option<Number>,
    fp0: (usize, usize, usize, usize, usize, usize, usize, usize, usize, usize, bool, bool),
    states: Vec<u64>,
    transitions: u64,
    bad: Vec<(String, String)>,
    history: Vec<String>,
    /// build the reference context anew before every step (not only for every history)
    fresh_reference: Option<fn() -> Context>,
}

impl<'a> Stepper<'a> {
    fn new(p: &'a mut Context, flag: bool) -> Stepper<'a> {
        let mut l = fresh_ctx();
        l.save_previous_result = flag;
        let fp0 = cheap_fingerprint(&l);
        Stepper { l, p, flag, reg: None, fp0, states: vec![state_key(&None, flag)], transitions: 0, bad: vec![], history: vec![], fresh_reference: None }
    }

    fn hist_text(&self) -> String {
        self.history.join(" ; ")
    }

    fn set_flag(&mut self, on: bool) {
        self.history.push(format!("<flag {}>", if on { "on" } else { "off" }));
        self.l.save_previous_result = on;
        self.flag = on;
        self.fp0.11 = on;
        self.states.push(state_key(&self.reg, self.flag));
    }

    fn step(&mut self, letter: usize) {
        let (q, plain) = ALPHA[letter];
        self.step_q(q, plain)
    }

    fn step_q(&mut self, q: &str, plain: bool) {
        self.history.push(q.to_string());
        // subject: the public helper, on the long-lived context
        let got = rink_core::eval(&mut self.l, q);
        if let Some(mk) = self.fresh_reference {
            *self.p = mk();
        }
        // reference: a pristine context evaluated through a shared reference, with only the
        // previous answer and the clock preset
        self.p.previous_result = self.reg.clone();
        self.p.save_previous_result = self.flag;
        self.p.now = self.l.now;
        let want = {
            let pr: &Context = &*self.p;
            let mut it = text_query::TokenIterator::new(q.trim()).peekable();
            let query = text_query::parse_query(&mut it);
            pr.eval_query(&query)
        };
        self.transitions += 1;
        if ser(&got) != ser(&want) {
            self.bad.push((
                "reply differs from the reply of a fresh context with the same previous answer".into(),
                format!("after [{}] (flag {}): got {} but a fresh context gives {}", self.hist_text(), self.flag, engine::util::clip(&ser(&got).to_string(), 300), engine::util::clip(&ser(&want).to_string(), 300)),
            ));
        }
        // model transition
        if self.flag && plain {
            match &want {
                Ok(QueryReply::Number(p)) => {
                    if let Some(raw) = &p.raw_value {
                        self.reg = Some(raw.clone());
                    }
                }
                Ok(QueryReply::Duration(d)) => {
                    if let Some(raw) = &d.raw.raw_value {
                        self.reg = Some(raw.clone());
                    }
                }
                _ => {}
            }
        }
        if self.l.previous_result != self.reg {
            self.bad.push((
                format!("`ans` is not the model's register after a {} query", if plain { "plain-expression" } else { "conversion/command" }),
                format!("after [{}] (flag {}): ans = {:?} but the most recent successful numeric result of a plain expression is {:?}", self.hist_text(), self.flag, self.l.previous_result, self.reg),
            ));
            // resynchronise so that one defect is reported once per history, not at every later step
            self.reg = self.l.previous_result.clone();
        }
        if cheap_fingerprint(&self.l) != self.fp0 {
            self.bad.push(("database or settings changed by a query".into(), format!("after [{}]: {:?} vs {:?}", self.hist_text(), cheap_fingerprint(&self.l), self.fp0)));
        }
        self.states.push(state_key(&self.reg, self.flag));
    }

    fn full_dump_hash(&self) -> u64 {
        hash64(&format!("{:?}", self.l.registry))
    }
}

impl C15 {
    fn tog_depth(&self) -> usize {
        let n = self.fams.fams[3].1[0];
        let mut d = 0;
        let mut x = 1u64;
        while x < n {
            x *= TOG_LETTERS;
            d += 1;
        }
        d
    }
    fn hist_depth(&self, fam: usize) -> usize {
        let n = self.fams.fams[fam].1[1];
        let mut d = 0;
        let mut x = 1u64;
        while x < n {
            x *= ALPHA.len() as u64;
            d += 1;
        }
        d
    }
}

impl Space for C15 {
    fn meta(&self) -> Meta {
        Meta {
            id: "C15",
            level: "model_checking",
            rule: format!("explicit-state exploration over a 16-query alphabet (one per reply kind and per way of touching ans: numbers, ans/_/ANS uses, an error, conversions, a definition lookup, units for, search, a time-valued result, a substance, a date, a unit list, an inline definition and a use of its name) with the feature flag on and off: every history up to depth {} is replayed on a freshly loaded real Context through rink_core::eval, and one long-lived Context is fed a de Bruijn sequence B(16,{}) (every length-{} window from a different non-initial state). Plus every history of depth {} over 6 queries and the two settings changes <flag on>/<flag off> made between queries on one context (initially off). Plus `2 m ; X ; ans` for 34 spellings X of conversions and commands (every base/digits/notation modifier, `to`/`in`, unit lists, date and temperature conversions, units for / factorize / search / definition lookups). Plus all depth-3 histories over 5 date literals and a number on a context that has user date patterns with overlapping readings loaded (reference: a pristine context with the same patterns). Model = one register (ans) and the flag. At every transition: serialised reply == reply of a pristine context evaluated through a shared reference with previous_result := register; ans == register; registry sizes/settings unchanged; full Debug dump of the registry compared at the end of histories. state = (register value, dimensionality, flag)", self.depth, self.db_order, self.db_order, self.tog_depth()),
            assumptions: vec![
                "the model register is updated from the pristine context's reply, so the reference is exactly the statement's 'fresh context with the same previous answer'".into(),
                "full registry dumps are compared at the end of every 16th history (every history in the thorough tier) and every 512 steps of the de Bruijn run; cheap size fingerprints at every transition".into(),
            ],
            exhaustive: true,
            extra: json!({"alphabet": ALPHA.iter().map(|a| a.0).collect::<Vec<_>>(), "depth": self.depth, "de_bruijn_order": self.db_order}),
        }
    }
    fn len(&self) -> u64 {
        self.fams.total()
    }
    fn describe(&self, idx: u64) -> String {
        let (f, d) = self.fams.locate(idx);
        if f < 2 {
            let letters = decode(d[1], &vec![ALPHA.len() as u64; self.hist_depth(f)]);
            format!("flag {}: {}", f == 0, letters.iter().map(|i| ALPHA[*i as usize].0).collect::<Vec<_>>().join(" ; "))
        } else if f == 5 {
            let letters = decode(d[0], &vec![DATE_LETTERS.len() as u64; 3]);
            format!("user date patterns loaded: {}", letters.iter().map(|i| DATE_LETTERS[*i as usize]).collect::<Vec<_>>().join(" ; "))
        } else if f == 4 {
            format!("flag {}: 2 m ; {} ; ans", d[1] == 1, NON_PLAIN[d[0] as usize])
        } else if f == 3 {
            let letters = decode(d[0], &vec![TOG_LETTERS; self.tog_depth()]);
            format!("flag initially off: {}", letters.iter().map(|i| match *i { 6 => "<flag on>", 7 => "<flag off>", k => TOG[k as usize].0 }).collect::<Vec<_>>().join(" ; "))
        } else {
            format!("flag {}: de Bruijn sequence B(16,{}) on one context", d[0] == 1, self.db_order)
        }
    }
    fn chunk(&self) -> u64 {
        16
    }
    fn time_limit(&self, _idx: u64) -> std::time::Duration {
        std::time::Duration::from_secs(300)
    }
    fn heavy(&self) -> Vec<(u64, u64)> {
        let n = self.fams.fams[0].2 + self.fams.fams[1].2;
        vec![(n, n + 2)]
    }
    fn reset(&mut self) {
        self.pristine.clear();
        self.pristine_dates.clear();
    }
    fn coverage_extra(&self, agg: &Aggregate) -> Value {
        json!({
            "states": agg.keys.len(),
            "transitions": agg.counters.get("transitions").copied().unwrap_or(0),
            "traces_validated_against_impl": agg.counters.get("histories").copied().unwrap_or(0),
            "full_registry_dumps_compared": agg.counters.get("full_dumps").copied().unwrap_or(0),
        })
    }
    fn run(&mut self, idx: u64) -> CaseOut {
        let (f, d) = self.fams.locate(idx);
        let flag = if f < 2 { f == 0 } else if f == 3 { false } else if f == 4 { d[1] == 1 } else if f == 5 { true } else { d[0] == 1 };
        let hist_depth = if f < 2 { self.hist_depth(f) } else { 0 };
        let thorough = self.depth >= 4;
        let tog_depth = if f == 3 { self.tog_depth() } else { 0 };
        let ref_hash = *self.reg_hash.get(|| hash64(&format!("{:?}", fresh_ctx().registry)));
        if f == 5 {
            // date parsing is where a `&Context` could hide a memory (a Cell): the reference context
            // is built anew for every history, so that it cannot carry anything over either
            self.pristine_dates.clear();
        }
        let p = if f == 5 { self.pristine_dates.get(ctx_with_user_patterns) } else { self.pristine.get(fresh_ctx) };
        let mut st = Stepper::new(p, flag);
        if f == 5 {
            st.fresh_reference = Some(ctx_with_user_patterns);
            st.l.load_date_file(USER_PATTERNS);
            st.fp0 = cheap_fingerprint(&st.l);
            st.fp0.11 = flag;
        }
        let mut full = 0u64;
        if f < 2 {
            let letters = decode(d[1], &vec![ALPHA.len() as u64; hist_depth]);
            for l in letters {
                st.step(l as usize);
            }
            if thorough || d[1] % 16 == 0 {
                full += 1;
                if st.full_dump_hash() != ref_hash {
                    st.bad.push(("database changed by a query (full dump)".into(), format!("after [{}]", st.hist_text())));
                }
            }
        } else if f == 5 {
            let letters = decode(d[0], &vec![DATE_LETTERS.len() as u64; 3]);
            for l in letters {
                st.step_q(DATE_LETTERS[l as usize], true);
            }
        } else if f == 4 {
            st.step_q("2 m", true);
            st.step_q(NON_PLAIN[d[0] as usize], false);
            st.step_q("ans", true);
        } else if f == 3 {
            let letters = decode(d[0], &vec![TOG_LETTERS; tog_depth]);
            for l in letters {
                match l {
                    6 => st.set_flag(true),
                    7 => st.set_flag(false),
                    k => st.step_q(TOG[k as usize].0, TOG[k as usize].1),
                }
            }
            if thorough || d[0] % 64 == 0 {
                full += 1;
                if st.full_dump_hash() != ref_hash {
                    st.bad.push(("database changed by a query (full dump)".into(), format!("after [{}]", st.hist_text())));
                }
            }
        } else {
            let seq = de_bruijn(ALPHA.len(), self.db_order as usize);
            for (i, l) in seq.iter().enumerate() {
                st.step(*l);
                st.history.clear(); // keep messages short: the window is what matters
                st.history.push(ALPHA[*l].0.to_string());
                if i % 512 == 511 {
                    full += 1;
                    if st.full_dump_hash() != ref_hash {
                        st.bad.push(("database changed by a query (full dump)".into(), format!("de Bruijn step {}", i)));
                        break;
                    }
                }
            }
            full += 1;
            if st.full_dump_hash() != ref_hash {
                st.bad.push(("database changed by a query (full dump)".into(), "end of de Bruijn run".to_string()));
            }
        }
        let mut out = CaseOut::ok(if f < 2 { "history" } else if f == 3 { "history with flag changes" } else if f == 4 { "conversion spelling history" } else if f == 5 { "history of date literals, user patterns" } else { "de Bruijn run" });
        out.keys = st.states.clone();
        out = out.count("transitions", st.transitions).count("histories", 1).count("full_dumps", full);
        // one report per distinct signature per history
        let mut seen = std::collections::BTreeSet::new();
        for (s, dt) in st.bad {
            if seen.insert(s.clone()) {
                out = out.viol(s, dt);
            }
        }
        out
    }
}
