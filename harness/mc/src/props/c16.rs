//! C16 — substance properties scale linearly and invert; formulas sum exactly.

use crate::common::*;
use crate::regdump;
use engine::util::{hash64, Fams};
use engine::{CaseOut, Meta, Space};
use num_traits::Zero;
use rink_core::output::{QueryError, QueryReply};
use rink_core::Context;
use serde_json::json;
use std::collections::BTreeMap;

#[derive(Clone, Debug)]
struct Prop {
    subst: String,
    name: String,
    input_name: String,
    output_name: String,
    iv: Rat,
    id: Dims,
    ov: Rat,
    od: Dims,
    unambiguous: bool,
}

pub struct C16 {
    fams: Fams,
    props: Vec<Prop>,
    amounts: Vec<(String, Rat)>,
    symbols: Vec<(String, Rat)>,
    pair_syms: Vec<usize>,
    skipped_unit_names: Vec<String>,
    ctx: Lazy<Context>,
    /// the bundled database plus NAMED_DEFS
    named: Lazy<Context>,
}

const COUNTS: [&str; 6] = ["", "2", "10", "4294967295", "4294967296", "99999999999999999999"];
const NEAR_MISS: [&str; 28] = [
    "h2o", "Xx2", "2H", "H 2O", "H-2", "H(2)", "", "Hx", "H2o", "HHe3x", "C6H12O6z", "He-", "NaCL", "nacl", "H2O)", "H2O2.5", "H_2", "Unobtainium", "Zz", "A1", "He2+", "Hₑ",
    // a well-formed formula with a plural `s` behind it is not a formula
    "CO2s", "NaCls", "H2SO4s", "CH4s", "C6H12O6s", "KBrs",
];
const COMPOUNDS: [(&str, &[(&str, i64)]); 6] = [
    ("H2O", &[("H", 2), ("O", 1)]),
    ("C6H12O6", &[("C", 6), ("H", 12), ("O", 6)]),
    ("NaCl", &[("Na", 1), ("Cl", 1)]),
    ("CH3CH2OH", &[("C", 2), ("H", 6), ("O", 1)]),
    ("Fe2O3", &[("Fe", 2), ("O", 3)]),
    ("CoCl2", &[("Co", 1), ("Cl", 2)]),
];

fn base_expr(d: &Dims) -> String {
    if d.is_empty() {
        return "1".into();
    }
    d.iter().map(|(k, e)| format!("{}^{}", regdump::q(k), e)).collect::<Vec<_>>().join(" ")
}

fn rtext(r: &Rat) -> String {
    if r.is_integer() {
        format!("{}", r.numer())
    } else {
        format!("({}|{})", r.numer(), r.denom())
    }
}

/// Formulas asked of the bundled database and then, on the same thread, of (0) a small database
/// whose elements weigh 12 / 1 / 16 kg per mol, (1) that database after a further load made carbon
/// 13 kg per mol, (2) a database without any element.  (formula, counts of C, H, O)
/// A definitions file can give a name to a scaled or summed substance; asking the name must be the
/// same as asking the expression.  (name, defining expression)
const NAMED_DEFS: [(&str, &str); 9] = [
    ("zz_three_water", "3 water"),
    ("zz_quarter_water", "water / 4"),
    ("zz_tank", "2 m^3 water"),
    ("zz_pair", "2 (carbon + oxygen)"),
    ("zz_half_pair", "(carbon + oxygen) / 2"),
    ("zz_plain_pair", "carbon + oxygen"),
    ("zz_mix", "2 carbon + 3 oxygen"),
    ("zz_alias", "water"),
    ("zz_air3", "3 air"),
];
const NAMED_PROPS: [&str; 9] = ["molar_mass", "mass", "amount", "density", "volume", "specific_heat", "specific_energy", "temperature", "pressure_column"];
const NAMED_FORMS: [&str; 4] = ["{p} of {x}", "{p} of (2 {x})", "{p} of ({x} / 5)", "{x}"];
const OTHER_FORMULAS: [(&str, [i64; 3]); 5] = [("CH4", [1, 4, 0]), ("C2H6", [2, 6, 0]), ("CO2", [1, 0, 2]), ("H2O2", [0, 2, 2]), ("C6H12O6", [6, 12, 6])];
const SMALL_ELEMENTS: &str = "kg !kilogram\nmol !mole\n!symbol carbon C\ncarbon {\n    molar_mass mass 12 kg / amount 1 mol\n}\n!symbol hydrogen H\nhydrogen {\n    molar_mass mass 1 kg / amount 1 mol\n}\n!symbol oxygen O\noxygen {\n    molar_mass mass 16 kg / amount 1 mol\n}\n";

impl C16 {
    pub fn new(_tier: &str) -> C16 {
        let ctx = fresh_ctx();
        let mut props = vec![];
        let mut skipped = vec![];
        for (sname, s) in &ctx.registry.substances {
            // unit definitions that mention a substance (`lusec = liter micron Hg / s`) are stored as
            // substances with a dimensioned amount: they are quantities *of* a substance, not substances
            if ctx.lookup(sname).is_some() || !regdump::addressable(sname) || s.amount != rink_core::types::Number::one() {
                skipped.push(sname.clone());
                continue;
            }
            let mut counts: BTreeMap<&str, usize> = BTreeMap::new();
            for p in s.properties.properties.values() {
                *counts.entry(&p.input_name).or_insert(0) += 1;
                *counts.entry(&p.output_name).or_insert(0) += 1;
            }
            for (pname, p) in &s.properties.properties {
                let (iv, ov) = match (numeric_to_rat(&p.input.value), numeric_to_rat(&p.output.value)) {
                    (Some(a), Some(b)) => (a, b),
                    _ => continue,
                };
                props.push(Prop {
                    subst: sname.clone(),
                    name: pname.clone(),
                    input_name: p.input_name.clone(),
                    output_name: p.output_name.clone(),
                    iv,
                    id: dims_of(&p.input),
                    ov,
                    od: dims_of(&p.output),
                    unambiguous: counts[p.input_name.as_str()] == 1 && counts[p.output_name.as_str()] == 1 && p.input_name != p.output_name,
                });
            }
        }
        let amounts = vec![
            ("1".to_string(), rat(1, 1)),
            ("3".to_string(), rat(3, 1)),
            ("(1|7)".to_string(), rat(1, 7)),
            ("2.5".to_string(), rat(5, 2)),
            ("1e6".to_string(), rat(1_000_000, 1)),
        ];
        let mut symbols = vec![];
        for (sym, name) in &ctx.registry.substance_symbols {
            if let Some(s) = ctx.registry.substances.get(name) {
                if let Some(p) = s.properties.properties.get("molar_mass") {
                    if let (Some(i), Some(o)) = (numeric_to_rat(&p.input.value), numeric_to_rat(&p.output.value)) {
                        symbols.push((sym.clone(), o / i));
                    }
                }
            }
        }
        let pair_syms: Vec<usize> = (0..symbols.len()).step_by((symbols.len() / 12).max(1)).take(12).collect();
        let mut fams = Fams::default();
        fams.add("output of an amount; input of that result; wrong dimensionality", vec![props.len() as u64, amounts.len() as u64, 3]);
        fams.add("property of k * substance and substance / k", vec![props.len() as u64, 4]);
        fams.add("substance reply of k * substance", vec![props.len() as u64, 3]);
        fams.add("single symbols x counts", vec![symbols.len() as u64, COUNTS.len() as u64]);
        fams.add("ordered pairs of symbols with counts", vec![pair_syms.len() as u64, pair_syms.len() as u64, 3]);
        fams.add("classic compounds", vec![COMPOUNDS.len() as u64]);
        fams.add("near misses", vec![NEAR_MISS.len() as u64]);
        fams.add("formulas in other databases on the same thread", vec![OTHER_FORMULAS.len() as u64, 3]);
        fams.add("named definitions of scaled and summed substances", vec![NAMED_DEFS.len() as u64, NAMED_PROPS.len() as u64, NAMED_FORMS.len() as u64]);
        C16 { fams, props, amounts, symbols, pair_syms, skipped_unit_names: skipped, ctx: Lazy::new(), named: Lazy::new() }
    }
}

fn number_of(r: &Result<QueryReply, QueryError>) -> Result<(Rat, Dims), String> {
    let n = match r {
        Ok(QueryReply::Number(p)) => p.raw_value.clone(),
        Ok(QueryReply::Duration(d)) => d.raw.raw_value.clone(),
        Ok(o) => return Err(format!("reply kind {}", reply_kind(o))),
        Err(e) => return Err(format!("error ({}): {}", err_kind(e), e)),
    }
    .ok_or("no raw value")?;
    Ok((numeric_to_rat(&n.value).ok_or("float")?, dims_of(&n)))
}

impl Space for C16 {
    fn meta(&self) -> Meta {
        Meta {
            id: "C16",
            level: "exploration",
            rule: "every substance x every property of the registry: output of an amount a (5 rational amounts, written in base units of the input dimensionality) = output*(a/input) exactly; the input of that result = a; a wrong-dimension amount is a Conformance error; `<prop> of (k S)` and `(S / k)` scale by k and 1/k; const properties listed by `k S` scale by k. Formulas: every element symbol x counts {none, 2, 10, 2^32-1, 2^32, 1e20-1}, all ordered pairs of 12 symbols x 3 count patterns, six classic compounds: molar mass = exact count-weighted sum; 28 near-miss strings (six of them formulas with a plural s appended) are not formulas. Plus 5 formulas asked of the bundled database and then, on the same thread, of a small database with other element masses, of that database after a load redefined an element, and of a database without elements. Plus 9 definitions that name a scaled, divided or summed substance (`zz_pair 2 (carbon + oxygen)`, `zz_tank 2 m^3 water`, ...) loaded on top of the bundled database: 9 properties x 4 query forms asked of the name and of the bracketed expression must agree in value and dimensionality. Non-trivial = judged; distinct by query text".into(),
            assumptions: vec![
                "properties whose input/output names are not unique within the substance are skipped for the name-addressed queries (the statement's own restriction) and counted".into(),
                "a substance is addressed only by names that do not also resolve as a unit (units win: `hg` is hectogram, not mercury)".into(),
                "intensive (ratio) properties in the *listing* of `k S` are not judged; the `of` path is".into(),
                "a count beyond 2^32-1 may be refused or summed exactly, but must not panic or give another value".into(),
            ],
            exhaustive: true,
            extra: json!({"families": self.fams.summary(), "properties": self.props.len(), "symbols": self.symbols.len(), "substances_skipped_because_the_name_is_a_unit": self.skipped_unit_names}),
        }
    }
    fn len(&self) -> u64 {
        self.fams.total()
    }
    fn describe(&self, idx: u64) -> String {
        let (f, d) = self.fams.locate(idx);
        if f == self.fams.fams.len() - 1 {
            let (name, expr) = NAMED_DEFS[d[0] as usize];
            return format!("`{}` with `{} {}` loaded, against the same with ({})", NAMED_FORMS[d[2] as usize].replace("{p}", NAMED_PROPS[d[1] as usize]).replace("{x}", name), name, expr, expr);
        }
        if f == self.fams.fams.len() - 2 {
            return format!("molar_mass of {} in {}", OTHER_FORMULAS[d[0] as usize].0, ["a small database asked after the bundled one", "that database after a load redefined carbon", "a database without elements"][d[1] as usize]);
        }
        self.plan(idx).0
    }
    fn sample_indices(&self) -> Vec<u64> {
        self.fams.starts()
    }
    fn chunk(&self) -> u64 {
        500
    }
    fn reset(&mut self) {
        self.ctx.clear();
        self.named.clear();
    }
    fn run(&mut self, idx: u64) -> CaseOut {
        {
            let (f, d) = self.fams.locate(idx);
            if f == self.fams.fams.len() - 1 {
                let (name, expr) = NAMED_DEFS[d[0] as usize];
                let form = NAMED_FORMS[d[2] as usize].replace("{p}", NAMED_PROPS[d[1] as usize]);
                let (q_name, q_expr) = (form.replace("{x}", name), form.replace("{x}", &format!("({})", expr)));
                let ctx = self.named.get(|| {
                    let mut c = fresh_ctx();
                    let text: String = NAMED_DEFS.iter().map(|(n, e)| format!("{} {}\n", n, e)).collect();
                    let (res, printed) = capture_stdout(|| c.load_definitions(&text));
                    if res.is_err() || !printed.trim().is_empty() {
                        panic!("the named-substance definitions do not load: {:?} {}", res, printed);
                    }
                    c
                });
                let mut out = CaseOut::ok("named substance").key(hash64(&q_name));
                // the name in the replies differs by construction; values and dimensionalities must not
                let strip = |r: &Result<QueryReply, QueryError>| -> String {
                    match r {
                        Ok(QueryReply::Substance(s)) => {
                            let v = serde_json::to_value(s).unwrap_or(serde_json::Value::Null);
                            format!("substance amount {} properties {}", v["amount"], v["properties"])
                        }
                        Ok(_) | Err(_) => match number_of(r) {
                            Ok((v, d)) => format!("{} [{}]", v, dims_str(&d)),
                            // the error texts name the substance, which differs by construction
                            Err(e) => format!("not a number: {}", e.split(':').next().unwrap_or("")),
                        },
                    }
                };
                let (a, b) = (strip(&eval_q(ctx, &q_name)), strip(&eval_q(ctx, &q_expr)));
                if a != b {
                    out = out.viol("a named scaled substance answers differently from the expression it names", format!("`{}` -> {} but `{}` -> {}", q_name, engine::util::clip(&a, 300), q_expr, engine::util::clip(&b, 300)));
                }
                if a.starts_with("not a number") {
                    out.outcome = "named substance: both refused".into();
                }
                return out;
            }
            if f == self.fams.fams.len() - 2 {
                let (formula, counts) = OTHER_FORMULAS[d[0] as usize];
                let q = format!("molar_mass of {}", formula);
                let mut out = CaseOut::ok("other database").key(hash64(&("other", formula, d[1])));
                // the bundled database first, on this thread
                let big = self.ctx.get(fresh_ctx);
                let _ = eval_q(big, &q);
                let mut small = Context::new();
                small.use_humanize = false;
                let (text, c_mass) = match d[1] {
                    0 => (SMALL_ELEMENTS.to_string(), 12),
                    1 => (SMALL_ELEMENTS.to_string(), 13),
                    _ => ("kg !kilogram\nmol !mole\n".to_string(), 0),
                };
                let _ = small.load_definitions(&text);
                if d[1] == 1 {
                    let _ = eval_q(&small, &q);
                    let _ = small.load_definitions("!symbol carbon C\ncarbon {\n    molar_mass mass 13 kg / amount 1 mol\n}\n");
                }
                let res = eval_q(&small, &q);
                if d[1] == 2 {
                    if let Ok(r) = &res {
                        out = out.viol("text read as a formula in a database that has no elements", format!("`{}` -> {}", q, r));
                    }
                    return out;
                }
                let want = rat(c_mass * counts[0] + counts[1] + 16 * counts[2], 1);
                match number_of(&res) {
                    Ok((g, gd)) => {
                        let mut wd = Dims::new();
                        wd.insert("kg".into(), 1);
                        wd.insert("mol".into(), -1);
                        if g != want || gd != wd {
                            out = out.viol("molar mass is not the count-weighted sum of this database's elements", format!("`{}` -> {} [{}], expected {} kg/mol", q, g, dims_str(&gd), want));
                        }
                    }
                    Err(e) => out = out.viol("formula of known symbols not evaluated", format!("`{}`: {}", q, e)),
                }
                return out;
            }
        }
        let (q, want) = self.plan(idx);
        let ctx = self.ctx.get(fresh_ctx);
        let mut out = CaseOut::ok("").key(hash64(&q));
        match want {
            Want::Skip(w) => return CaseOut::ok(format!("skipped: {}", w)),
            Want::Value(v, d) => {
                out.outcome = "value".into();
                match number_of(&eval_q(ctx, &q)) {
                    Ok((g, gd)) => {
                        if g != v || gd != d {
                            out = out.viol("substance property value differs from output*(a/input)", format!("`{}` -> {} [{}], expected {} [{}]", q, g, dims_str(&gd), v, dims_str(&d)));
                        }
                    }
                    Err(e) => out = out.viol("substance property query failed", format!("`{}`: {}", q, e)),
                }
            }
            Want::RoundTrip { first, a, ad, input_name, od, subst } => {
                out.outcome = "round trip".into();
                match number_of(&eval_q(ctx, &first)) {
                    Ok((r, rd)) => {
                        if rd != od {
                            out = out.viol("substance property has the wrong dimensionality", format!("`{}` -> [{}]", first, dims_str(&rd)));
                        } else if r.is_zero() {
                            out.outcome = "round trip (zero result: skipped)".into();
                        } else {
                            let back = format!("{} of ({} * {} {})", regdump::q(&input_name), rtext(&r), base_expr(&od), regdump::q(&subst));
                            match number_of(&eval_q(ctx, &back)) {
                                Ok((g, gd)) => {
                                    if g != a || gd != ad {
                                        out = out.viol("asking for the input of the result does not return the amount", format!("`{}` -> {} [{}], expected {} [{}]", back, g, dims_str(&gd), a, dims_str(&ad)));
                                    }
                                }
                                Err(e) => out = out.viol("inverse substance query failed", format!("`{}`: {}", back, e)),
                            }
                        }
                    }
                    Err(e) => out = out.viol("substance property query failed", format!("`{}`: {}", first, e)),
                }
            }
            Want::Conformance => match eval_q(ctx, &q) {
                Err(QueryError::Conformance(_)) => out.outcome = "wrong dimension -> Conformance".into(),
                Err(e) => {
                    out.outcome = "wrong dimension -> other error".into();
                    out = out.viol("wrong-dimension amount is not a conformance error", format!("`{}`: {} ({})", q, e, err_kind(&e)));
                }
                Ok(r) => {
                    out.outcome = "wrong dimension accepted".into();
                    out = out.viol("wrong-dimension amount accepted", format!("`{}` -> {}", q, r));
                }
            },
            Want::Listing { pname, v, d } => {
                out.outcome = "listing".into();
                match eval_q(ctx, &q) {
                    Ok(QueryReply::Substance(s)) => match s.properties.iter().find(|p| p.name == pname) {
                        Some(p) => {
                            let raw = p.value.raw_value.as_ref();
                            let got = raw.and_then(|r| numeric_to_rat(&r.value).map(|x| (x, dims_of(r))));
                            if got != Some((v.clone(), d.clone())) {
                                out = out.viol("listed const property is not scaled with the substance", format!("`{}` {}: {:?} expected {} [{}]", q, pname, got.map(|g| g.0.to_string()), v, dims_str(&d)));
                            }
                        }
                        None => out = out.viol("const property missing from the listing", format!("`{}` lacks {}", q, pname)),
                    },
                    Ok(o) => out = out.viol("substance expression is not a substance", format!("`{}` -> {}", q, reply_kind(&o))),
                    Err(e) => out = out.viol("substance listing failed", format!("`{}`: {}", q, e)),
                }
            }
            Want::MolarMass(Some(v)) => {
                out.outcome = "molar mass".into();
                let mut d = Dims::new();
                d.insert("kg".into(), 1);
                d.insert("mol".into(), -1);
                match number_of(&eval_q(ctx, &q)) {
                    Ok((g, gd)) => {
                        if g != v || gd != d {
                            out = out.viol("molar mass is not the count-weighted sum", format!("`{}` -> {} [{}], expected {}", q, g, dims_str(&gd), v));
                        }
                    }
                    Err(e) => out = out.viol("well-formed formula refused", format!("`{}`: {}", q, e)),
                }
            }
            Want::MolarMass(None) | Want::NotFormula => {
                let big = matches!(want, Want::MolarMass(None));
                match eval_q(ctx, &q) {
                    Err(_) => out.outcome = if big { "huge count refused".into() } else { "near miss refused".into() },
                    Ok(QueryReply::Substance(s)) => {
                        out.outcome = "accepted as a formula".into();
                        out = out.viol("text that is not a well-formed formula is treated as one", format!("`{}` -> substance {}", q, s.name));
                    }
                    Ok(QueryReply::Number(_)) if q.contains(" of ") => {
                        out.outcome = "accepted as a formula".into();
                        out = out.viol("text that is not a well-formed formula is treated as one", format!("`{}` answered a molar mass", q));
                    }
                    Ok(_) => out.outcome = "read as something else (unit/definition)".into(),
                }
            }
        }
        out
    }
}

enum Want {
    Skip(&'static str),
    Value(Rat, Dims),
    RoundTrip { first: String, a: Rat, ad: Dims, input_name: String, od: Dims, subst: String },
    Conformance,
    Listing { pname: String, v: Rat, d: Dims },
    /// Some(exact sum) or None = may be refused but must not be another value
    MolarMass(Option<Rat>),
    NotFormula,
}

impl C16 {
    fn plan(&self, idx: u64) -> (String, Want) {
        let (f, d) = self.fams.locate(idx);
        match f {
            0 => {
                let p = &self.props[d[0] as usize];
                let (at, a) = &self.amounts[d[1] as usize];
                let s = regdump::q(&p.subst);
                let first = format!("{} of ({} * {} {})", regdump::q(&p.output_name), at, base_expr(&p.id), s);
                if !p.unambiguous {
                    return (first, Want::Skip("input/output names not unique within the substance"));
                }
                if p.id.is_empty() {
                    return (first, Want::Skip("const property (no input quantity): covered by the scaling family"));
                }
                match d[2] {
                    0 => (first, Want::Value(&p.ov * a / &p.iv, p.od.clone())),
                    1 => (first.clone(), Want::RoundTrip { first, a: a.clone(), ad: p.id.clone(), input_name: p.input_name.clone(), od: p.od.clone(), subst: p.subst.clone() }),
                    _ => {
                        // an amount of a dimensionality that is neither the input's nor the output's
                        let mut wrong = Dims::new();
                        wrong.insert("cd".into(), 1);
                        wrong.insert("bit".into(), 1);
                        (format!("{} of ({} * {} {})", regdump::q(&p.output_name), at, base_expr(&wrong), s), Want::Conformance)
                    }
                }
            }
            1 => {
                let p = &self.props[d[0] as usize];
                let s = regdump::q(&p.subst);
                let base = &p.ov / &p.iv;
                let dd = dims_mul(&p.od, &p.id, -1);
                match d[1] {
                    0 => (format!("{} of {}", regdump::q(&p.name), s), Want::Value(base, dd)),
                    1 => (format!("{} of (3 {})", regdump::q(&p.name), s), Want::Value(base * rat(3, 1), dd)),
                    2 => (format!("{} of ({} / 7)", regdump::q(&p.name), s), Want::Value(base / rat(7, 1), dd)),
                    _ => (format!("{} of ({} * 2.5 / 4)", regdump::q(&p.name), s), Want::Value(base * rat(5, 8), dd)),
                }
            }
            2 => {
                let p = &self.props[d[0] as usize];
                let s = regdump::q(&p.subst);
                if !p.id.is_empty() {
                    return (format!("3 {}", s), Want::Skip("intensive property: listing not judged"));
                }
                let (q, k) = match d[1] {
                    0 => (s.clone(), rat(1, 1)),
                    1 => (format!("3 {}", s), rat(3, 1)),
                    _ => (format!("{} / 7", s), rat(1, 7)),
                };
                (q, Want::Listing { pname: p.name.clone(), v: &p.ov * k / &p.iv, d: p.od.clone() })
            }
            3 => {
                let (sym, mm) = &self.symbols[d[0] as usize];
                let c = COUNTS[d[1] as usize];
                let name = format!("{}{}", sym, c);
                let q = format!("molar_mass of {}", regdump::q(&name));
                if self_is_unit(&name) {
                    return (q, Want::Skip("name also reads as a unit"));
                }
                let cnt: Option<u64> = if c.is_empty() { Some(1) } else { c.parse().ok() };
                match cnt {
                    Some(n) if n <= u32::MAX as u64 => (q, Want::MolarMass(Some(mm * Rat::from_integer(n.into())))),
                    _ => (q, Want::MolarMass(None)),
                }
            }
            4 => {
                let (a, am) = &self.symbols[self.pair_syms[d[0] as usize]];
                let (b, bm) = &self.symbols[self.pair_syms[d[1] as usize]];
                let (ca, cb): (u64, u64) = [(1, 1), (2, 3), (12, 1)][d[2] as usize];
                let t = |s: &str, c: u64| if c == 1 { s.to_string() } else { format!("{}{}", s, c) };
                let name = format!("{}{}", t(a, ca), t(b, cb));
                let q = format!("molar_mass of {}", regdump::q(&name));
                if self_is_unit(&name) {
                    return (q, Want::Skip("name also reads as a unit"));
                }
                // a two-letter symbol may also lex as another symbol (e.g. C + o vs Co): the formula
                // lexer is greedy (upper + optional lower), so "Co" is cobalt: compute with that rule
                let _ = (am, bm);
                match greedy_mass(&name, &self.symbols) {
                    Some(want) => (q, Want::MolarMass(Some(want))),
                    None => (q, Want::NotFormula),
                }
            }
            5 => {
                let (name, parts) = COMPOUNDS[d[0] as usize];
                if self_is_unit(name) {
                    return (name.to_string(), Want::Skip("name is defined in the database (not read as a formula)"));
                }
                let mut sum = Rat::zero();
                for (s, c) in parts.iter() {
                    match self.symbols.iter().find(|x| x.0 == *s) {
                        Some((_, m)) => sum += m * Rat::from_integer((*c).into()),
                        None => return (name.to_string(), Want::Skip("element not in the database")),
                    }
                }
                (format!("molar_mass of {}", regdump::q(name)), Want::MolarMass(Some(sum)))
            }
            _ => {
                let name = NEAR_MISS[d[0] as usize];
                if !name.is_empty() && self_is_unit(name) {
                    return (name.to_string(), Want::Skip("name also reads as a unit"));
                }
                (format!("molar_mass of {}", regdump::q(name)), Want::NotFormula)
            }
        }
    }
}

thread_local! {
    static UNIT_CTX: Context = fresh_ctx();
}

fn self_is_unit(name: &str) -> bool {
    UNIT_CTX.with(|c| c.lookup(name).is_some() || c.registry.substances.contains_key(name))
}

/// Own formula reader: upper-case letter + optional lower-case letter, optional decimal count.
fn greedy_mass(name: &str, symbols: &[(String, Rat)]) -> Option<Rat> {
    let chars: Vec<char> = name.chars().collect();
    let mut i = 0;
    let mut sum = Rat::zero();
    while i < chars.len() {
        if !chars[i].is_ascii_uppercase() {
            return None;
        }
        let mut sym = chars[i].to_string();
        i += 1;
        if i < chars.len() && chars[i].is_ascii_lowercase() {
            sym.push(chars[i]);
            i += 1;
        }
        let mut cnt = String::new();
        while i < chars.len() && chars[i].is_ascii_digit() {
            cnt.push(chars[i]);
            i += 1;
        }
        let m = &symbols.iter().find(|s| s.0 == sym)?.1;
        let c: u64 = if cnt.is_empty() { 1 } else { cnt.parse().ok()? };
        sum += m * Rat::from_integer(c.into());
    }
    Some(sum)
}
