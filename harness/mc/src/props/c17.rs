//! C17 — `units for` and `factorize` are dimensionally sound and complete.

use crate::common::*;
use crate::regdump::{self, Dump};
use engine::util::{hash64, Fams};
use engine::{Abnormal, CaseOut, Meta, Space, Violation};
use rink_core::output::QueryReply;
use rink_core::Context;
use serde_json::json;
use std::collections::{BTreeMap, BTreeSet};

struct X {
    dims: Dims,
    /// spellings: quantity name, a unit of that dimensionality, a product of base units
    spellings: Vec<String>,
}

pub struct C17 {
    fams: Fams,
    xs: Vec<X>,
    max_score: i64,
    dump: Dump,
    ctx: Lazy<Context>,
}

fn base_product(d: &Dims) -> String {
    if d.is_empty() {
        return "1".into();
    }
    d.iter().map(|(k, e)| if *e == 1 { regdump::q(k) } else { format!("{}^{}", regdump::q(k), e) }).collect::<Vec<_>>().join(" ")
}

/// A second, small database with its own quantity names, queried on the same thread (and after
/// the same questions have been put to the bundled one), and a database whose quantity table is
/// changed by a further load: an answer must come from the context that is asked.
const SMALL_DB: &str = "m !meter\ns !second\nkg !kilogram\nlength ? m\nduration ? s\nspeed ? length / duration\nrate ? 1 / duration\nheft ? kg\nmile 1609 m\n";
const SMALL_XS: [&str; 6] = ["m / s", "m", "1 / s", "kg m / s", "m^2", "speed"];

const CAT_QUERIES: [&str; 4] = ["units for foo", "units for bar", "units for 5 baz", "units for baz^2 / foo"];
const CATS: [Option<(&str, &str)>; 3] = [None, Some(("aa", "Category A")), Some(("bb", "Category B"))];

fn cat_db(d: &[u64]) -> String {
    let wrap = |c: u64, def: &str| match CATS[c as usize] {
        None => format!("{}\n", def),
        Some((id, name)) => format!("!category {} \"{}\"\n{}\n!endcategory\n", id, name, def),
    };
    let base = if d[0] == 0 { "foo !" } else { "foo !foolong" };
    // ... and a unit that is worth nothing, which is a unit of that dimensionality all the same
    format!("{}{}{}nil 0 foo\n", wrap(d[1], base), wrap(d[2], "bar 2 foo"), wrap(d[3], "baz 3 foo"))
}

fn score(d: &Dims) -> i64 {
    d.values().map(|p| 1 + p.abs()).sum()
}

impl C17 {
    pub fn new(tier: &str) -> C17 {
        let thorough = tier == "thorough";
        let ctx = fresh_ctx();
        let dump = regdump::dump(&ctx);
        let mut by: BTreeMap<String, X> = BTreeMap::new();
        let mut add = |dims: &Dims, spelling: Option<String>| {
            let e = by.entry(dims_str(dims)).or_insert_with(|| X { dims: dims.clone(), spellings: vec![base_product(dims)] });
            if let Some(s) = spelling {
                if !e.spellings.contains(&s) {
                    e.spellings.push(s);
                }
            }
        };
        for (q, d) in &dump.quantity_dims {
            // a quantity name that is also a unit/prefix reading is looked up as a quantity first by these commands
            add(d, Some(q.clone()));
        }
        for u in dump.representatives() {
            add(&u.dims, Some(regdump::q(&u.name)));
        }
        let base: Vec<String> = dump.base_units.iter().cloned().collect();
        let exps = [-3i64, -2, -1, 1, 2, 3];
        let maxu = if thorough { 3 } else { 2 };
        fn rec(start: usize, base: &[String], exps: &[i64], left: usize, cur: &mut Dims, out: &mut Vec<Dims>) {
            if !cur.is_empty() {
                out.push(cur.clone());
            }
            if left == 0 {
                return;
            }
            for b in start..base.len() {
                for e in exps {
                    cur.insert(base[b].clone(), *e);
                    rec(b + 1, base, exps, left - 1, cur, out);
                    cur.remove(&base[b]);
                }
            }
        }
        let mut prods = vec![];
        rec(0, &base, &exps, maxu, &mut Dims::new(), &mut prods);
        for d in prods {
            add(&d, None);
        }
        add(&Dims::new(), None);
        let mut xs: Vec<X> = by.into_values().collect();
        // exponents range over -3..3 *including 0*: a factor raised to the power 0 contributes nothing
        for x in xs.iter_mut() {
            let other = base.iter().find(|b| !x.dims.contains_key(*b)).unwrap_or(&base[0]);
            let p = base_product(&x.dims);
            x.spellings.push(format!("{} {}^0", p, regdump::q(other)));
            x.spellings.push(format!("({})^0 {}", p, p));
        }
        let mut fams = Fams::default();
        fams.add("units for X", vec![xs.len() as u64]);
        fams.add("factorize X", vec![xs.len() as u64]);
        fams.add("another database on the same thread / a further load on the same context", vec![SMALL_XS.len() as u64, 2]);
        // small databases with categories: a base unit with / without a long name and two derived units, each in one of two categories or in none
        fams.add("categorised small databases: base unit long name x category of each of three definitions x query", vec![2, 3, 3, 3, CAT_QUERIES.len() as u64]);
        C17 { fams, xs, max_score: if thorough { 9 } else { 8 }, dump, ctx: Lazy::new() }
    }

    fn expected_units(&self, d: &Dims) -> BTreeSet<String> {
        let mut out = BTreeSet::new();
        for u in self.dump.units.values() {
            if &u.dims == d && !u.is_alias {
                out.insert(u.name.clone());
            }
        }
        if d.len() == 1 {
            let (b, e) = d.iter().next().unwrap();
            if *e == 1 {
                out.insert(self.dump.long_names.get(b).cloned().unwrap_or_else(|| b.clone()));
            }
        }
        out
    }
}

impl C17 {
    fn run_other_db(&mut self, idx: u64) -> CaseOut {
        let (_, d) = self.fams.locate(idx);
        // after the rename the quantity of m/s is called velocity
        let x = if d[1] == 1 && SMALL_XS[d[0] as usize] == "speed" { "velocity" } else { SMALL_XS[d[0] as usize] };
        let mut out = CaseOut::ok("other database").key(hash64(&("other", x, d[1])));
        let big = self.ctx.get(fresh_ctx);
        // the same questions to the bundled database first (same thread)
        let _ = eval_q(big, &format!("factorize {}", x));
        let _ = eval_q(big, &format!("units for {}", x));
        let mut small = Context::new();
        small.use_humanize = false;
        let _ = small.load_definitions(SMALL_DB);
        if d[1] == 1 {
            // ask once, then rename a quantity by a further load (reported as a conflict, but loaded), ask again
            let _ = eval_q(&small, &format!("factorize {}", x));
            let _ = eval_q(&small, &format!("units for {}", x));
            let _ = small.load_definitions("velocity ? m / s\npace 2 m\n");
        }
        let dump = regdump::dump(&small);
        let xd = match eval_q(&small, &format!("1 ({})", x)) {
            Ok(QueryReply::Number(p)) => p.raw_value.map(|r| dims_of(&r)).unwrap_or_default(),
            _ => match dump.quantity_dims.get(x) {
                Some(d) => d.clone(),
                None => return out.viol("harness: cannot evaluate X in the small database", x.to_string()),
            },
        };
        match eval_q(&small, &format!("factorize {}", x)) {
            Ok(QueryReply::Factorize(r)) => {
                for fz in &r.factorizations {
                    let mut prod = Dims::new();
                    for (name, pow) in &fz.units {
                        match dump.quantity_dims.get(&***name) {
                            Some(qd) => prod = dims_mul(&prod, &dims_pow(qd, *pow as i64), 1),
                            None => out = out.viol("factorize: names something that is not a quantity of the context that was asked", format!("`factorize {}` on the small database: {}", x, name)),
                        }
                    }
                    if prod != xd {
                        out = out.viol("factorize: product does not multiply out to X (small database)", format!("`factorize {}`: {} but X is {}", x, dims_str(&prod), dims_str(&xd)));
                    }
                }
                if r.factorizations.is_empty() && x != "kg m / s" && x != "m^2" {
                    out = out.viol("factorize: no answer although a quantity of that dimensionality exists", format!("`factorize {}` on the small database", x));
                }
            }
            Ok(o) => out = out.viol("factorize: unexpected reply", format!("`factorize {}` -> {}", x, reply_kind(&o))),
            Err(e) => out = out.viol("factorize: refused", format!("`factorize {}`: {}", x, e)),
        }
        match eval_q(&small, &format!("units for {}", x)) {
            Ok(QueryReply::UnitsFor(r)) => {
                let listed: BTreeSet<String> = r.units.iter().flat_map(|c| c.units.iter().cloned()).collect();
                for u in &listed {
                    let ok = dump.units.get(u).map(|ud| ud.dims == xd).unwrap_or(false) || dump.base_units.contains(u) || dump.long_names.values().any(|l| l == u);
                    if !ok {
                        out = out.viol("units for: lists a name that is not a unit of that dimensionality in the context that was asked", format!("`units for {}` on the small database: {}", x, u));
                    }
                }
                for ud in dump.units.values() {
                    if ud.dims == xd && !ud.is_alias && !listed.contains(&ud.name) {
                        out = out.viol("units for: a unit of the small database is missing", format!("`units for {}`: {}", x, ud.name));
                    }
                }
            }
            Ok(o) => out = out.viol("units for: unexpected reply", format!("`units for {}` -> {}", x, reply_kind(&o))),
            Err(e) => out = out.viol("units for: refused", format!("`units for {}`: {}", x, e)),
        }
        out
    }
}

impl Space for C17 {
    fn meta(&self) -> Meta {
        Meta {
            id: "C17",
            level: "exploration",
            rule: "every named quantity, every dimensionality occurring in the registry and every product of up to 2 (thorough 3) base units with exponents in -3..3, each written as the quantity name, as a unit of that dimensionality, as a product of base units, and as that product with an extra factor raised to the power 0 (`p b^0`, `(p)^0 p`): `units for X` must list exactly the non-alias units of the registry dump with that exponent vector (plus the base unit itself for a single base unit to the first power), each once, under its own category's display name, with non-empty non-repeated groups, identically for all spellings; `factorize X` (complexity score bounded) must return only products of quantities whose exponent vectors multiply out to X's, no duplicates, identically for all spellings. Plus a second, small database with its own quantity names asked on the same thread after the bundled one, and the same database after a further load renamed a quantity: every name in an answer must belong to the context that was asked. Plus 54 small databases with categories (a base unit with or without a long name and two derived units, each in `Category A`, `Category B` or none, plus a zero-valued unit) x 4 spellings: every unit once, under its own category, no category listed twice, none missing. Non-trivial = all; distinct by (command, dimensionality)".into(),
            assumptions: vec![
                "factorize beyond the complexity bound is exponential: not explored here (C04 records it); a timeout inside the bound is recorded, not judged".into(),
            ],
            exhaustive: true,
            extra: json!({"families": self.fams.summary(), "factorize_max_complexity_score": self.max_score}),
        }
    }
    fn len(&self) -> u64 {
        self.fams.total()
    }
    fn describe(&self, idx: u64) -> String {
        let (f, d) = self.fams.locate(idx);
        if f == 3 {
            return format!("`{}` on the database {:?}", CAT_QUERIES[d[4] as usize], cat_db(&d));
        }
        if f == 2 {
            return format!("factorize / units for {} on a small database {}", SMALL_XS[d[0] as usize], if d[1] == 0 { "after the bundled one on the same thread" } else { "after a further load renamed a quantity" });
        }
        let x = &self.xs[d[0] as usize];
        format!("{} {}   (spellings: {})", if f == 0 { "units for" } else { "factorize" }, base_product(&x.dims), x.spellings.join(" | "))
    }
    fn chunk(&self) -> u64 {
        50
    }
    fn time_limit(&self, _idx: u64) -> std::time::Duration {
        std::time::Duration::from_secs(30)
    }
    fn abnormal(&self, idx: u64, kind: Abnormal, info: &str) -> Option<Violation> {
        if kind == Abnormal::Timeout {
            return None;
        }
        Some(Violation { sig: format!("{}: {}", engine::kind_name(kind), engine::util::normalise_panic(info)), detail: format!("{}: {}", self.describe(idx), info) })
    }
    fn reset(&mut self) {
        self.ctx.clear();
    }
    fn run(&mut self, idx: u64) -> CaseOut {
        if self.fams.locate(idx).0 == 2 {
            return self.run_other_db(idx);
        }
        if self.fams.locate(idx).0 == 3 {
            let (_, d) = self.fams.locate(idx);
            let text = cat_db(&d);
            let q = CAT_QUERIES[d[4] as usize];
            let mut out = CaseOut::ok("categorised database").key(hash64(&(&text, q)));
            let mut small = Context::new();
            small.use_humanize = false;
            let (res, printed) = capture_stdout(|| small.load_definitions(&text));
            if res.is_err() || !printed.trim().is_empty() {
                return out.viol("harness: the categorised database does not load cleanly", format!("{:?}: {:?} {}", text, res, printed));
            }
            let base_name = if d[0] == 0 { "foo" } else { "foolong" };
            let own_cat = |c: u64| CATS[c as usize].map(|(_, n)| n.to_string());
            let want: Vec<(&str, Option<String>)> = vec![("bar", own_cat(d[2])), ("baz", own_cat(d[3]))];
            match eval_q(&small, q) {
                Ok(QueryReply::UnitsFor(r)) => {
                    let mut seen_cats: Vec<Option<String>> = vec![];
                    let mut seen_units: Vec<String> = vec![];
                    for g in &r.units {
                        let cat = g.category.clone();
                        if seen_cats.contains(&cat) {
                            out = out.viol("units for: a category is listed more than once", format!("`{}` on {:?}: {:?} again", q, text, cat));
                        }
                        seen_cats.push(cat.clone());
                        if g.units.is_empty() {
                            out = out.viol("units for: empty group", format!("`{}` on {:?}", q, text));
                        }
                        for u in &g.units {
                            if seen_units.contains(u) {
                                out = out.viol("units for: a unit is listed more than once", format!("`{}` on {:?}: {}", q, text, u));
                            }
                            seen_units.push(u.clone());
                            if let Some((_, wc)) = want.iter().find(|(n, _)| n == u) {
                                if wc != &cat {
                                    out = out.viol("units for: a unit is listed under another category than its own", format!("`{}` on {:?}: {} under {:?}, defined in {:?}", q, text, u, cat, wc));
                                }
                            }
                        }
                    }
                    // the list is for the dimensionality of the query: `foo` for all but the last query
                    if d[4] != 3 {
                        for n in ["bar", "baz", "nil", base_name] {
                            if !seen_units.iter().any(|u| u == n) {
                                out = out.viol("units for: a unit of the small database is missing", format!("`{}` on {:?}: {}", q, text, n));
                            }
                        }
                        if seen_units.len() != 4 {
                            out = out.viol("units for: lists a name that is not a unit of that dimensionality in the context that was asked", format!("`{}` on {:?}: {:?}", q, text, seen_units));
                        }
                    }
                }
                Ok(o) => out = out.viol("units for: unexpected reply", format!("`{}` -> {}", q, reply_kind(&o))),
                Err(e) => out = out.viol("units for: refused", format!("`{}` on {:?}: {}", q, text, e)),
            }
            return out;
        }
        let (f, d) = self.fams.locate(idx);
        let x = &self.xs[d[0] as usize];
        let expected = self.expected_units(&x.dims);
        let qdims: BTreeMap<String, Dims> = self.dump.quantity_dims.clone();
        let catnames = self.dump.category_names.clone();
        let cats: BTreeMap<String, Option<String>> = self.dump.units.values().map(|u| (u.name.clone(), u.category.clone())).collect();
        let ctx = self.ctx.get(fresh_ctx);
        let mut out = CaseOut::ok("").key(hash64(&(f, dims_str(&x.dims))));
        if f == 0 {
            out.outcome = "units for".into();
            let mut first: Option<serde_json::Value> = None;
            for sp in &x.spellings {
                let q = format!("units for {}", sp);
                match eval_q(ctx, &q) {
                    Ok(QueryReply::UnitsFor(r)) => {
                        let mut seen = BTreeSet::new();
                        let mut seen_cat = BTreeSet::new();
                        for g in &r.units {
                            if g.units.is_empty() {
                                out = out.viol("units for: empty group", format!("`{}`: {:?}", q, g.category));
                            }
                            if !seen_cat.insert(g.category.clone()) {
                                out = out.viol("units for: category repeated", format!("`{}`: {:?}", q, g.category));
                            }
                            for u in &g.units {
                                if !seen.insert(u.clone()) {
                                    out = out.viol("units for: unit listed twice", format!("`{}`: {}", q, u));
                                }
                                // its own category
                                let want_cat = match cats.get(u) {
                                    Some(Some(c)) => catnames.get(c).cloned(),
                                    Some(None) => None,
                                    None => ctx.registry.categories.get(u).and_then(|c| catnames.get(c).cloned()),
                                };
                                if g.category != want_cat {
                                    out = out.viol("units for: unit under another category", format!("`{}`: {} under {:?}, its category is {:?}", q, u, g.category, want_cat));
                                }
                            }
                        }
                        let extra: Vec<_> = seen.difference(&expected).cloned().collect();
                        let missing: Vec<_> = expected.difference(&seen).cloned().collect();
                        if !extra.is_empty() {
                            out = out.viol("units for: lists a unit of another dimensionality (or an alias)", format!("`{}`: {:?}", q, extra));
                        }
                        if !missing.is_empty() {
                            out = out.viol("units for: a unit of that dimensionality is missing", format!("`{}`: {:?}", q, missing));
                        }
                        let rd: Option<Dims> = r.of.raw_dimensions.as_ref().map(|d| d.iter().map(|(k, v)| (k.to_string(), *v)).collect());
                        if rd.as_ref() != Some(&x.dims) {
                            out = out.viol("units for: reports another dimensionality", format!("`{}`: {:?}", q, rd));
                        }
                        let lists = serde_json::to_value(&r.units).unwrap();
                        match &first {
                            None => first = Some(lists),
                            Some(f0) if *f0 != lists => out = out.viol("units for: answer depends on how X is written", format!("`{}` differs from `units for {}`", q, x.spellings[0])),
                            _ => {}
                        }
                    }
                    Ok(o) => out = out.viol("units for: unexpected reply", format!("`{}` -> {}", q, reply_kind(&o))),
                    Err(e) => out = out.viol("units for: refused", format!("`{}`: {}", q, e)),
                }
            }
            return out.count("spellings", x.spellings.len() as u64);
        }
        if score(&x.dims) > self.max_score {
            return CaseOut::ok("factorize: beyond the complexity bound (not explored)");
        }
        out.outcome = "factorize".into();
        let mut first: Option<serde_json::Value> = None;
        for sp in &x.spellings {
            let q = format!("factorize {}", sp);
            match eval_q(ctx, &q) {
                Ok(QueryReply::Factorize(r)) => {
                    let mut seen = BTreeSet::new();
                    for fz in &r.factorizations {
                        let mut prod = Dims::new();
                        let mut key = vec![];
                        for (name, pow) in &fz.units {
                            key.push(format!("{}^{}", name, pow));
                            match qdims.get(&***name) {
                                Some(d) => prod = dims_mul(&prod, &dims_pow(d, *pow as i64), 1),
                                None => out = out.viol("factorize: names something that is not a quantity", format!("`{}`: {}", q, name)),
                            }
                        }
                        if prod != x.dims {
                            out = out.viol("factorize: product does not multiply out to X", format!("`{}`: {} = {} but X is {}", q, key.join(" "), dims_str(&prod), dims_str(&x.dims)));
                        }
                        if !seen.insert(key.clone()) {
                            out = out.viol("factorize: duplicate factorization", format!("`{}`: {}", q, key.join(" ")));
                        }
                    }
                    let v = serde_json::to_value(&r.factorizations).unwrap();
                    match &first {
                        None => first = Some(v),
                        Some(f0) if *f0 != v => out = out.viol("factorize: answer depends on how X is written", format!("`{}` differs from `factorize {}`", q, x.spellings[0])),
                        _ => {}
                    }
                }
                Ok(o) => out = out.viol("factorize: unexpected reply", format!("`{}` -> {}", q, reply_kind(&o))),
                Err(e) => out = out.viol("factorize: refused", format!("`{}`: {}", q, e)),
            }
        }
        out.count("spellings", x.spellings.len() as u64)
    }
}
