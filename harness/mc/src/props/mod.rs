pub mod c01;
pub mod c02;
pub mod c03;
pub mod c04;
pub mod c05;
pub mod c06;
pub mod c07;
pub mod c08;
pub mod c09;
pub mod c10;
pub mod c11;
pub mod c12;
pub mod c13;
pub mod c14;
pub mod c15;
pub mod c16;
pub mod c17;

use engine::Space;

pub fn build(id: &str, tier: &str, _seed: u64) -> Option<Box<dyn Space + Sync + Send>> {
    Some(match id {
        "C01" => Box::new(c01::C01::new(tier)),
        "C02" => Box::new(c02::C02::new(tier)),
        "C03" => Box::new(c03::C03::new(tier)),
        "C04" => Box::new(c04::C04::new(tier)),
        "C05" => Box::new(c05::C05::new(tier)),
        "C06" => Box::new(c06::C06::new(tier)),
        "C07" => Box::new(c07::C07::new(tier)),
        "C08" => Box::new(c08::C08::new(tier)),
        "C09" => Box::new(c09::C09::new(tier)),
        "C10" => Box::new(c10::C10::new(tier)),
        "C11" => Box::new(c11::C11::new(tier)),
        "C12" => Box::new(c12::C12::new(tier)),
        "C13" => Box::new(c13::C13::new(tier)),
        "C14" => Box::new(c14::C14::new(tier)),
        "C15" => Box::new(c15::C15::new(tier)),
        "C16" => Box::new(c16::C16::new(tier)),
        "C17" => Box::new(c17::C17::new(tier)),
        _ => return None,
    })
}
