pub mod c01;

use engine::Space;

pub fn build(id: &str, tier: &str, _seed: u64) -> Option<Box<dyn Space + Sync + Send>> {
    Some(match id {
        "C01" => Box::new(c01::C01::new(tier)),
        _ => return None,
    })
}
