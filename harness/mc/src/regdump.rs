//! Plain-data dump of the loaded registry, read through its public fields.
//! All oracles work from this dump with their own arithmetic.
#![allow(dead_code)]

use crate::common::*;
use rink_core::ast::Expr;
use rink_core::Context;
use std::collections::{BTreeMap, BTreeSet};

#[derive(Clone, Debug)]
pub struct UnitInfo {
    pub name: String,
    /// exact value, None when the stored value is a float
    pub value: Option<Rat>,
    pub fvalue: f64,
    pub dims: Dims,
    /// its definition is a bare unit name
    pub is_alias: bool,
    pub has_def: bool,
    pub category: Option<String>,
}

#[derive(Clone, Debug, Default)]
pub struct Dump {
    pub base_units: BTreeSet<String>,
    pub long_names: BTreeMap<String, String>,
    pub units: BTreeMap<String, UnitInfo>,
    pub prefixes: Vec<(String, Rat)>,
    /// dims (canonical string) -> quantity name
    pub quantities: BTreeMap<String, String>,
    pub quantity_dims: BTreeMap<String, Dims>,
    pub substances: Vec<String>,
    pub symbols: BTreeMap<String, String>,
    pub category_names: BTreeMap<String, String>,
    pub definitions: BTreeSet<String>,
}

pub fn dims_key(d: &Dims) -> String {
    dims_str(d)
}

pub fn dump(ctx: &Context) -> Dump {
    let r = &ctx.registry;
    let mut d = Dump::default();
    for b in &r.base_units {
        d.base_units.insert(b.to_string());
    }
    d.long_names = r.base_unit_long_names.clone();
    for (name, num) in &r.units {
        let def = r.definitions.get(name);
        d.units.insert(
            name.clone(),
            UnitInfo {
                name: name.clone(),
                value: numeric_to_rat(&num.value),
                fvalue: num.value.to_f64(),
                dims: dims_of(num),
                is_alias: matches!(def, Some(Expr::Unit { .. })),
                has_def: def.is_some(),
                category: r.categories.get(name).cloned(),
            },
        );
    }
    for (p, v) in &r.prefixes {
        if let Some(v) = numeric_to_rat(v) {
            d.prefixes.push((p.clone(), v));
        }
    }
    for (dims, name) in &r.quantities {
        let dd: Dims = dims.iter().map(|(k, v)| (k.to_string(), *v)).collect();
        d.quantities.insert(dims_key(&dd), name.clone());
        d.quantity_dims.insert(name.clone(), dd);
    }
    d.substances = r.substances.keys().cloned().collect();
    d.symbols = r.substance_symbols.clone();
    d.category_names = r.category_names.clone();
    d.definitions = r.definitions.keys().cloned().collect();
    d
}

impl Dump {
    /// value and dims of an exact name (base unit, unit) — no prefix/plural handling
    pub fn exact(&self, name: &str) -> Option<(Option<Rat>, Dims)> {
        if self.base_units.contains(name) {
            let mut d = Dims::new();
            d.insert(name.to_string(), 1);
            return Some((Some(rat(1, 1)), d));
        }
        self.units.get(name).map(|u| (u.value.clone(), u.dims.clone()))
    }

    /// one representative unit per distinct dimensionality: prefers a positive exact value,
    /// a name that is a plain identifier, and the shortest such name.
    pub fn representatives(&self) -> Vec<UnitInfo> {
        let mut by: BTreeMap<String, Vec<&UnitInfo>> = BTreeMap::new();
        for u in self.units.values() {
            by.entry(dims_key(&u.dims)).or_default().push(u);
        }
        let mut out = vec![];
        for (_k, mut v) in by {
            v.sort_by_key(|u| {
                let good = u
                    .value
                    .as_ref()
                    .map(|x| x > &rat(0, 1))
                    .unwrap_or(false);
                (!good, u.name.len(), u.name.clone())
            });
            out.push(v[0].clone());
        }
        out
    }
}

/// `"name"` — the lexer's double-quote arm yields an identifier with no keyword matching.
pub fn q(name: &str) -> String {
    format!("\"{}\"", name.replace('\\', "\\\\").replace('"', "\\\""))
}

/// Is `"name"` read back by the query parser as the plain unit `name`?
pub fn addressable(name: &str) -> bool {
    use rink_core::parsing::text_query::{parse_expr, TokenIterator};
    let s = q(name);
    let mut it = TokenIterator::new(&s).peekable();
    matches!(parse_expr(&mut it), Expr::Unit { name: ref n } if n == name)
}

/// One reading of a name by the reference resolver.
#[derive(Clone, Debug, PartialEq)]
pub struct Reading {
    pub value: Option<Rat>,
    pub fvalue: f64,
    pub dims: Dims,
    pub how: &'static str,
}

impl Dump {
    fn exact_reading(&self, name: &str, how: &'static str) -> Option<Reading> {
        if self.base_units.contains(name) {
            let mut d = Dims::new();
            d.insert(name.to_string(), 1);
            return Some(Reading { value: Some(rat(1, 1)), fvalue: 1.0, dims: d, how });
        }
        self.units.get(name).map(|u| Reading {
            value: u.value.clone(),
            fvalue: u.fvalue,
            dims: u.dims.clone(),
            how,
        })
    }

    fn exact_or_prefixed(&self, name: &str) -> Vec<Reading> {
        if let Some(r) = self.exact_reading(name, "exact") {
            return vec![r];
        }
        let mut out = vec![];
        for (p, pv) in &self.prefixes {
            if let Some(rest) = name.strip_prefix(p.as_str()) {
                if let Some(r) = self.exact_reading(rest, "prefix") {
                    use num_traits::ToPrimitive;
                    out.push(Reading {
                        value: r.value.as_ref().map(|v| v * pv),
                        fvalue: r.fvalue * pv.to_f64().unwrap_or(f64::NAN),
                        dims: r.dims.clone(),
                        how: "prefix",
                    });
                }
            }
        }
        out
    }

    /// The statement's resolution order: exact, else prefix+unit (every valid split is a
    /// candidate), else the same two steps on the name without a trailing `s`.
    pub fn resolve(&self, name: &str) -> Vec<Reading> {
        let r = self.exact_or_prefixed(name);
        if !r.is_empty() {
            return r;
        }
        if let Some(stem) = name.strip_suffix('s') {
            return self
                .exact_or_prefixed(stem)
                .into_iter()
                .map(|mut r| {
                    r.how = if r.how == "exact" { "plural" } else { "plural+prefix" };
                    r
                })
                .collect();
        }
        vec![]
    }
}
