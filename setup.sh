#!/bin/sh
# Builds the framework from files on disk only (offline).
set -e
cd "$(dirname "$0")"
export CARGO_NET_OFFLINE=true
mkdir -p target evidence
( cd harness && CARGO_TARGET_DIR="$(pwd)/../target/harness" cargo build --offline --profile mc -p mc -p mc-sandbox )
( cd harness-loom && CARGO_TARGET_DIR="$(pwd)/../target/loom" cargo build --offline --profile mc )
# C19 also runs in the profile of a released build (no debug assertions, no overflow checks)
( cd harness && CARGO_TARGET_DIR="$(pwd)/../target/harness" cargo build --offline --profile mcrel -p mc-sandbox )
( cd harness-loom && CARGO_TARGET_DIR="$(pwd)/../target/loom" cargo build --offline --profile mcrel )
( cd /repo && CARGO_TARGET_DIR="$(cd /verif && pwd)/target/repo-cli" CARGO_PROFILE_DEV_OPT_LEVEL=1 CARGO_PROFILE_DEV_DEBUG=0 cargo build --offline -p rink )
echo "setup done"
