#!/bin/sh
# Builds the framework from files on disk only (offline).
set -e
cd "$(dirname "$0")"
export CARGO_NET_OFFLINE=true
mkdir -p target evidence
( cd harness && CARGO_TARGET_DIR="$(pwd)/../target/harness" cargo build --offline --profile mc -p mc )
echo "setup done"
