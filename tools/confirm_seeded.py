#!/usr/bin/env python3
"""Confirms a seeded change in the scratch worktree /tmp/wt-confirm (never in /repo):
 1. demo passes on the unmodified tree, 2. patch applies and the workspace test summary equals the
 baseline (ignoring the pre-existing rink-sandbox integration failure), 3. demo fails with the patch.
usage: tools/confirm_seeded.py <seeded-dir> <demo-file> <dest-dir-in-repo> <cargo test args...>"""
import subprocess, sys, os, re, json, shutil
WT = "/tmp/wt-confirm"
d, demo, dest = sys.argv[1], sys.argv[2], sys.argv[3]
targs = sys.argv[4:]
def sh(cmd, cwd=WT, timeout=3000):
    return subprocess.run(cmd, shell=True, cwd=cwd, capture_output=True, text=True, timeout=timeout)
def summary():
    p = sh("cargo test --workspace --no-fail-fast --offline 2>&1 | grep -E '^test result|FAILED|failed to|error(\\[|:)'")
    lines = [re.sub(r"finished in [0-9.]+s", "", l) for l in p.stdout.splitlines()]
    # the sandbox integration target fails before and after; port collisions in cli download tests are flaky
    return [l for l in lines if "integration" not in l and "memory allocation" not in l]
def run_demo():
    os.makedirs(os.path.join(WT, dest), exist_ok=True)
    shutil.copy(os.path.join(d, demo), os.path.join(WT, dest, demo))
    if targs and targs[0] == "--cmd":
        p = sh(" ".join(targs[1:]) + " 2>&1 | tail -40")
        os.remove(os.path.join(WT, dest, demo))
        good = p.stdout.rstrip().endswith("DEMO-EXIT 0")
        return good, p.stdout[-600:]
    p = sh("cargo test --offline " + " ".join(targs) + " 2>&1 | tail -40")
    os.remove(os.path.join(WT, dest, demo))
    ok = re.search(r"test result: ok", p.stdout) is not None and "FAILED" not in p.stdout and not re.search(r"^error(\[|:)", p.stdout, re.M)
    failed = "FAILED" in p.stdout or "panicked" in p.stdout
    return ok and not failed, p.stdout[-600:]
sh("git checkout -- . && git clean -fdq -e target")
base = [l for l in open("/tmp/confirm-baseline.txt").read().splitlines() if l.startswith("test result")]
base = [re.sub(r"finished in [0-9.]+s", "", l) for l in base]
res = {"dir": d}
ok0, out0 = run_demo()
res["demo_passes_without_change"] = ok0
a = sh("git apply --whitespace=nowarn %s" % os.path.abspath(os.path.join(d, "patch.diff")))
res["patch_applies"] = a.returncode == 0
s = summary()
res["suite_with_change"] = [l for l in s if l.startswith("test result")] 
res["suite_matches_baseline"] = res["suite_with_change"] == base and not any("FAILED" in l for l in s)
ok1, out1 = run_demo()
res["demo_fails_with_change"] = not ok1
res["demo_tail_with_change"] = out1[-300:]
sh("git checkout -- . && git clean -fdq -e target")
print(json.dumps(res, indent=1))
