#!/usr/bin/env python3
"""Regenerates /verif/MANIFEST.json from the table below (kept next to the checks so the
manifest never drifts from what is built)."""
import json, os

HERE = os.path.dirname(os.path.dirname(os.path.abspath(__file__)))
props = [json.loads(l) for l in open(os.path.join(HERE, "properties.jsonl"))]

# id -> (level, technique, text, note, design_ref)
BUILT = {
 "C01": ("exploration", "bounded-exhaustive enumeration of expression trees x literal alphabet against a BigRational reference evaluator, two independent renderings",
         "Every expression tree up to 2 (quick) / 3 (thorough) operator nodes over all 14 operators and a boundary-value literal alphabet is evaluated by the real evaluator and by an independent exact evaluator; exhaustive within the stated alphabet, nothing sampled.",
         "num-bigint/num-rational are trusted; literals outside the alphabet and results above 40000 bits are out of reach", "3/C01"),
 "C02": ("exploration", "bounded-exhaustive enumeration of operator applications over one representative per dimensionality (all ordered pairs) and every unit, against an own exponent-vector algebra",
         "All ordered pairs of dimensionality representatives under 10 binary operators, 27 unary/function applications over every unit, and depth-2 trees, judged by an independent dimensional algebra over the registry dump.",
         "registry dump trusted (validated by C08); unjudged function/dimension combinations are recorded only", "3/C02"),
 "C03": ("exploration", "exhaustive enumeration of all ordered conformable unit pairs, unit x other-dimensionality refusals, prefix/plural targets and compound targets against exact rational reference",
         "Every ordered pair of conformable registry units (641k), every unit against every other dimensionality, prefixed/plural targets and compound source/target shapes are converted by the real code and compared exactly with v/t from the registry dump; suggestions of conformance errors are parsed back and checked.",
         "unit values from the registry dump; one float-valued unit compared approximately", "3/C03"),
 "C05": ("exploration", "bounded-exhaustive enumeration of rationals x bases x digit modes, printed numerals read back by an independent numeral reader",
         "All p/q up to a bound plus boundary families in every base and digits mode are printed by the real formatter and read back by an independent reader that decides exact/approximate denotation.",
         "values beyond the families (other huge periods) are out of reach; exponent is read as decimal scaling by base^k", "3/C05"),
 "C07": ("exploration", "exhaustive enumeration of every prefix+name[+s] string of the bundled database (2 configurations) and all 2^10 sub-databases of a colliding pool against an independent resolver",
         "Every one of ~1.1M prefix+unit[+s] names is looked up on two independent loads and compared with a reference resolver; canonicalisation must preserve the denotation.",
         "competing prefix splits are all accepted (statement does not rank them)", "3/C07"),
 "C08": ("exploration", "exhaustive per-entry fixed-point evaluation of every stored definition in both configurations plus whole-database invariants",
         "Each of ~2500 definitions is re-evaluated in the loaded context and compared with the stored value, in both feature configurations; load output is captured at fd level.",
         "Debug output shows all registry fields", "3/C08"),
 "C09": ("exploration", "exhaustive enumeration of ordered unit lists (length 2-6) x boundary rational values per dimensionality, checked against the statement's four clauses",
         "All ordered lists with repetition over up to 6 units of every dimensionality with >=2 units, for 11-13 values each, plus every non-conformable position and 67 durations.",
         "negative-valued units excluded (sign clause ill-posed)", "3/C09"),
 "C10": ("exploration", "exhaustive enumeration of x values x all 26x26 scale spellings, chains over all 6^3 scale triples and refusal shapes against hard-coded textbook affine maps",
         "Every ordered pair of the 26 scale spellings for each boundary x, all scale triples as chains, and 12 refusal shapes per spelling.",
         "textbook constants hard-coded in the harness", "3/C10"),
 "C11": ("exploration", "bounded-exhaustive enumeration of expression trees (every constructor in every operand position up to 2/3 operator nodes) and every bundled definition, print -> parse round trip on three printers",
         "Every tree with <=2 (thorough <=3) operator nodes over 22 constructors is parsed, printed by Display / serde ExprString / ExprReply and re-parsed; all bundled definition expressions too.",
         "ExprReply parts joined by single spaces; inexact numerals excluded as the statement says", "3/C11"),
}

NOT_YET = {}

checks = []
na = []
for p in props:
    i = p["id"]
    if i in BUILT:
        level, tech, text, note, ref = BUILT[i]
        checks.append({
            "property_id": i,
            "quick_cmd": f"./check {i} --tier quick",
            "thorough_cmd": f"./check {i} --tier thorough",
            "evidence_file": f"/verif/evidence/{i}.json",
            "replay_cmd_template": f"./check {i} --replay {{path}}",
            "engine": "mc",
            "level_claimed": {"category": level, "text": text, "design_ref": f"DESIGN.md section {ref}"},
            "level_note": note,
            "technique": tech,
        })
    else:
        na.append({"property_id": i, "reason": NOT_YET.get(i, "check not built yet (work in progress; see DESIGN.md section 3 for the planned check)")})

m = {
 "version": 1,
 "setup_cmd": "./setup.sh",
 "hooks": {
  "guard": "rink_verif",
  "enable": "no hooks are used: the harness crates path-depend on /repo/core and /repo/sandbox and rebuild them from the working tree; the guard name is reserved",
  "baseline_off_cmd": "cd /repo && cargo test --workspace --no-fail-fast --offline",
  "source_commits": [],
  "add_only": True,
 },
 "engines": [
  {"name": "mc", "path": "harness/", "serves_properties": sorted(BUILT.keys()),
   "kind_free_text": "Rust workspace: exhaustive-enumeration engine (worker processes with watchdog, catch_unwind, address-space limit) + one Space per property, running the real rink-core code against independent reference models"},
 ],
 "checks": checks,
 "notes": "Every check decides by exhaustive enumeration of a stated finite space on the real code (never sampling, never a solver). Known findings live in known-findings.json. ./check <ID> --tier quick|thorough rebuilds from /repo's working tree.",
 "not_applicable": na,
}
json.dump(m, open(os.path.join(HERE, "MANIFEST.json"), "w"), indent=1)
print("checks:", len(checks), "not claimed:", len(na))
