#!/usr/bin/env python3
"""Regenerates /verif/MANIFEST.json from the table below (kept next to the checks so the
manifest never drifts from what is built)."""
import json, os

HERE = os.path.dirname(os.path.dirname(os.path.abspath(__file__)))
props = [json.loads(l) for l in open(os.path.join(HERE, "properties.jsonl"))]

# id -> (level, technique, text, note, design_ref)
BUILT = {
 "C01": ("exploration", "bounded-exhaustive enumeration of expression trees x literal alphabet against a BigRational reference evaluator, three independent renderings (fully / minimally parenthesised, alternative token spellings)",
         "Every expression tree up to 2 (quick) / 3 (thorough) operator nodes over all 14 operators and a boundary-value literal alphabet is evaluated by the real evaluator and by an independent exact evaluator; exhaustive within the stated alphabet, nothing sampled.",
         "num-bigint/num-rational are trusted; literals outside the alphabet and results above 40000 bits are out of reach", "3/C01"),
 "C02": ("exploration", "bounded-exhaustive enumeration of operator applications over one representative per dimensionality (all ordered pairs) and every unit, against an own exponent-vector algebra",
         "All ordered pairs of dimensionality representatives under 10 binary operators with zero and non-zero coefficients, 27 unary/function applications over every unit, and depth-2 trees, judged by an independent dimensional algebra over the registry dump.",
         "registry dump trusted (validated by C08); unjudged function/dimension combinations are recorded only", "3/C02"),
 "C03": ("exploration", "exhaustive enumeration of all ordered conformable unit pairs, unit x other-dimensionality refusals, prefix/plural targets and compound targets against exact rational reference",
         "Every ordered pair of conformable registry units (641k), every unit against every other dimensionality, prefixed/plural targets, compound source/target shapes (incl. zero-valued targets and constants 1e-400/1e400 outside the f64 range) and powers of prefixed targets are converted by the real code and compared exactly with v/t from the registry dump; suggestions of conformance errors are parsed back and checked.",
         "unit values from the registry dump; one float-valued unit compared approximately", "3/C03"),
 "C05": ("exploration", "bounded-exhaustive enumeration of rationals x bases x digit modes, printed numerals read back by an independent numeral reader",
         "All p/q up to a bound plus boundary families in every base and digits mode are printed by the real formatter and read back by an independent reader that decides exact/approximate denotation.",
         "values beyond the families (other huge periods) are out of reach; exponent is read as decimal scaling by base^k", "3/C05"),
 "C07": ("exploration", "exhaustive enumeration of every prefix+name[+s] string of the bundled database (2 configurations) all 2^12 sub-databases of a colliding pool, and load histories (base database + every subset / ordered pair of 7 redefinitions as further files) against an independent resolver",
         "Every one of ~1.1M prefix+unit[+s] names is looked up on two independent loads and compared with a reference resolver; canonicalisation must preserve the denotation; databases built by several loads on one Context are enumerated as histories. One open known finding (stale alias after a later load redefines its target).",
         "competing prefix splits are all accepted (statement does not rank them)", "3/C07"),
 "C08": ("exploration", "exhaustive per-entry fixed-point evaluation of every stored definition and every prefix line in both configurations plus whole-database invariants",
         "Each of ~2500 definitions is re-evaluated in the loaded context and compared with the stored value, in both feature configurations; each of the 118 prefix lines is re-read from the bundled text and compared with the prefix table; each of 179 quantity lines is re-derived by an own dimensional evaluator; each of ~2400 unit lines is re-read as text by an own line splitter, parsed by the query parser (not the loader's) and compared with the stored value; load output is captured at fd level.",
         "Debug output shows all registry fields", "3/C08"),
 "C09": ("exploration", "exhaustive enumeration of ordered unit lists (length 2-6) x boundary rational values per dimensionality, checked against the statement's four clauses",
         "All ordered lists with repetition over up to 6 units of every dimensionality with >=2 units, for 11-13 values each, plus every non-conformable position and 151 durations, near-multiple values (k +- e) a for every group.",
         "negative-valued units excluded (sign clause ill-posed)", "3/C09"),
 "C10": ("exploration", "exhaustive enumeration of x values x all 26x26 scale spellings, chains over all 6^3 scale triples and refusal shapes against hard-coded textbook affine maps",
         "Every ordered pair of the 26 scale spellings for each boundary x, all scale triples as chains, 12 refusal shapes per spelling, and 4 dimensioned operands under every spelling converted to every spelling.",
         "textbook constants hard-coded in the harness", "3/C10"),
 "C11": ("exploration", "bounded-exhaustive enumeration of expression trees (every constructor in every operand position up to 2/3 operator nodes) and every bundled definition, print -> parse round trip on three printers",
         "Every tree with <=2 (thorough <=3) operator nodes over 22 constructors is parsed, printed by Display / serde ExprString / ExprReply and re-parsed; all bundled definition expressions too.",
         "ExprReply parts joined by single spaces; inexact numerals excluded as the statement says", "3/C11"),

 "C04": ("exploration", "bounded-exhaustive input-space enumeration (token soups, single-deviation mutations, ladders, all short strings, grammar trees) on the real evaluator in watchdog-guarded worker processes, plus the real CLI binary",
         "Every token sequence up to length 3/4 over a 68-token alphabet, every single-character deviation of every test/manual query, depth/length ladders to 500 characters, all 1-2(3)-character strings, small expression trees (also as conversion targets), unit powers composed from small exponents and date literals with boundary years are evaluated and rendered in all three output forms under catch_unwind, an 8 MiB stack, a 2 GiB address space and a per-case watchdog; the same inputs are fed to the real `rink -f -`.",
         "inputs outside the alphabets (longer soups, multi-deviation mutations) are out of reach; expensive inputs are classified by a static textual rule", "3/C04"),
 "C06": ("exploration", "exhaustive enumeration of every unit x SI-prefix-boundary magnitudes x powers, all base-unit products, conversion-target shapes, digit/base modes, substances and a second CGS-style database; printed parts read back with an independent numeral reader and Context::lookup",
         "Every numeric reply over the swept space is decomposed into numeral, factor, divfactor and printed unit names; numeral x factor x product of the names (read back the way rink reads names) must equal the quantity computed from the registry dump.",
         "temperature-scale replies are C10's; float-valued units skipped", "3/C06"),
 "C12": ("exploration", "exhaustive enumeration of all 5040 permutations of dependency-closed definition subsets, bundled-database reorders/rotations, and all file-split assignments through the real binary, comparing whole-registry dumps",
         "All permutations of dependency-closed 7-subsets of a 31-definition pool, all 5040 text orders of 7 snippets x 36 splits into files parsed as files, the bundled database reversed/sorted/dependency-reversed/rotated, and a 6-definition extension set split over two files in all assignments x 4 file endings (real `rink --dump`) must yield byte-identical registry dumps and identical error multisets.",
         "duplicated names in the shipped file are reduced to their last occurrence first (premise of the statement)", "3/C12"),
 "C13": ("exploration", "deviation-bounded exhaustive enumeration of file mutations, definition token soups, dependency cycles/chains, malformed substances, JSON truncations/edits and date-pattern soups against the real loaders under watchdog",
         "0 and every single deviation of the bundled files, every definitions file of <=4/5 tokens, cycles of length 1..5000 (thorough 10000) through eleven namespace shapes, chains to 10000, zero-valued substance properties in 10 representations, exponent boundary values in definitions, every truncation and field edit of the currency JSON: every file of <=4/5 tokens over a name alphabet (plurals, prefixed spellings, long names) and 1-2/3-definition alias graphs followed by queries, lookups and canonicalisation of every name, files with runs of up to a million blanks/continuations: the load must terminate without panic/abort/stack overflow, report what the harness can prove is a problem, and leave a context that answers.",
         "nesting deeper than realistic files is out of scope; reporting clause judged only where provable", "3/C13"),
 "C14": ("exploration", "exhaustive enumeration of boundary instants x pattern forms x zone spellings, durations, all zone names and all +-HH:MM offsets against own proleptic-Gregorian arithmetic",
         "Every boundary instant in 10 pattern forms and 11 zone spellings, (d+t)-d and (d-t)+t for 26 whole-nanosecond durations, all ordered pairs of a core of instants, every chrono-tz zone and every +-HH:MM offset (HH,MM 00..99) as conversion target.",
         "chrono-tz zone data trusted for named-zone offsets; sub-minute LMT offsets skipped", "3/C14"),
 "C15": ("model_checking", "explicit-state exploration of all query histories up to a depth bound (and a de Bruijn sequence on one long-lived context) on the real Context against a one-register model, every transition executed on the implementation",
         "All histories over a 16-query alphabet to depth 3 (thorough 4) with the flag on (flag off: depth 2 / 4), and all histories of depth 4 (thorough 6) over 6 queries plus the settings changes flag-on / flag-off, are replayed on real contexts that have answered nothing before (each history in a fork()ed copy of the worker, on its private copy of a loaded, never-queried database); at every transition the reply must equal that of another never-queried copy (forked for that one reply and discarded) with the model's register preset, ans must equal the register, and the database must be unchanged.",
         "model register is fed from the never-queried context's replies; a forked copy of a loaded context stands for a newly loaded one; full registry dumps compared at history ends", "3/C15"),
 "C16": ("exploration", "exhaustive enumeration of every substance x property x amounts (forward, inverse, wrong dimension, scaling) and of formulas over every element symbol against exact rational reference",
         "Every property of every substance for 5 amounts in both directions, scaling by k and 1/k, every element symbol with boundary counts, symbol pairs, compounds and near-miss strings.",
         "ambiguously named properties skipped (statement's restriction); intensive properties in listings not judged", "3/C16"),
 "C17": ("exploration", "exhaustive enumeration of every named quantity / registry dimensionality / small base-unit product in five spellings (name, unit, base-unit product, product with zero-power factors) for `units for` and `factorize` against the registry dump",
         "For each dimensionality the listed units must equal the dump's non-alias units of that exponent vector under their categories, and every factorization must multiply out; answers must not depend on the spelling.",
         "factorize explored up to a complexity bound", "3/C17"),

 "C18": ("fault_enumeration", "exhaustive enumeration of fault sequences (10 request kinds, length <= 2/3, two gap lengths), idle-gap sequences (normal / slow-but-legal / long idle / short idle) and memory sequences (normal / legal 30 MiB fill / growth refused by the limit and reported by the request / 20 MiB reply, each ending with a 46 MiB fill) against the real Sandbox with real child processes, one parent process per sequence",
         "Every sequence over {normal, panic, time-limit overrun (10x and 1.5x), memory exhaustion, child exit, large payload, long non-ASCII panic report, oversized request, oversized reply} up to the length bound, followed by two normal requests, at two inter-request gaps, every sequence of legal requests and idle pauses around the time limit, and every sequence of memory-heavy legal requests, is executed against the real parent/child code; replies are matched to requests by unique operands and process ids are tracked.",
         "real time: 700 ms service limit, anomalies re-run once before being believed; sequences longer than the bound are out of reach", "3/C18"),
 "C19": ("model_checking", "explicit-state BFS over allocator operation histories on the real Alloc with byte- and 8-aligned layouts (sequential) plus loom exploration of every interleaving of 2-3 threads on the allocator source derived textually from the repository file",
         "Sequential: BFS with state canonicalisation to depth 6 (thorough 10) where every transition is replayed on a fresh real allocator against an integer byte counter. Concurrent: 448 harness bodies (2 threads x 1-2 ops unbounded, 3 threads x 1 op at preemption bound 2 / unbounded) under loom on the repository's own allocator text compiled against loom atomics, with a call/return timeline oracle for usage, limit and peak. Both halves run twice: in a profile with debug assertions and overflow checks, and in the profile of a released build without them.",
         "loom's model of the C11 memory model; the derived source differs from the repository file only in its import header and `const fn`; more than 3 threads and longer per-thread sequences are out of reach", "3/C19"),
 "C20": ("fault_enumeration", "exhaustive enumeration of prior cache state x server behaviour x entry point on the real rink binary, and of every crash point (SIGKILL injected by strace before each file-system syscall on the cache directory)",
         "All 5 x ~14-28 x 2 scenarios are run against a fault-injecting HTTP server; for the scenarios where data arrives (thorough: all) the process is killed before each open/write/fsync/rename/unlink on the cache directory and the cache bytes, the next start and exit statuses are checked.",
         "process crash, not power loss; rename(2) atomicity trusted; close-delimited HTTP bodies excluded", "3/C20"),
}

NOT_YET = {}

checks = []
na = []
for p in props:
    i = p["id"]
    if i in BUILT:
        level, tech, text, note, ref = BUILT[i]
        checks.append({
            "property_id": i,
            "quick_cmd": f"./check {i} --tier quick",
            "thorough_cmd": f"./check {i} --tier thorough",
            "evidence_file": f"/verif/evidence/{i}.json",
            "replay_cmd_template": f"./check {i} --replay {{path}}",
            "engine": {"C18": "mc-sandbox", "C19": "mc-sandbox + mc-alloc-loom", "C20": "c20"}.get(i, "mc"),
            "level_claimed": {"category": level, "text": text, "design_ref": f"DESIGN.md section {ref}"},
            "level_note": note,
            "technique": tech,
        })
    else:
        na.append({"property_id": i, "reason": NOT_YET.get(i, "check not built yet (work in progress; see DESIGN.md section 3 for the planned check)")})

m = {
 "version": 1,
 "setup_cmd": "./setup.sh",
 "hooks": {
  "guard": "rink_verif",
  "enable": "no hooks are used: the harness crates path-depend on /repo/core and /repo/sandbox and rebuild them from the working tree; the guard name is reserved",
  "baseline_off_cmd": "cd /repo && cargo test --workspace --no-fail-fast --offline",
  "source_commits": [],
  "add_only": True,
 },
 "engines": [
  {"name": "mc-sandbox", "path": "harness/mc-sandbox/", "serves_properties": ["C18", "C19"],
   "kind_free_text": "fault-sequence runner for the real Sandbox (parent + child processes) and explicit-state BFS over the real allocator"},
  {"name": "mc-alloc-loom", "path": "harness-loom/", "serves_properties": ["C19"],
   "kind_free_text": "loom model checker on the allocator source derived by build.rs from /repo/sandbox/src/alloc.rs"},
  {"name": "c20", "path": "check-C20", "serves_properties": ["C20"],
   "kind_free_text": "python orchestrator: fault-injecting HTTP server + the real rink binary + strace kill injection at every cache-directory syscall"},
  {"name": "mc", "path": "harness/", "serves_properties": sorted(k for k in BUILT.keys() if k not in ("C18", "C19", "C20")),
   "kind_free_text": "Rust workspace: exhaustive-enumeration engine (worker processes with watchdog, catch_unwind, address-space limit) + one Space per property, running the real rink-core code against independent reference models"},
 ],
 "checks": checks,
 "notes": "Every check decides by exhaustive enumeration of a stated finite space on the real code (never sampling, never a solver). Known findings live in known-findings.json. ./check <ID> --tier quick|thorough rebuilds from /repo's working tree.",
 "not_applicable": na,
}
json.dump(m, open(os.path.join(HERE, "MANIFEST.json"), "w"), indent=1)
print("checks:", len(checks), "not claimed:", len(na))
