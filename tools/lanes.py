#!/usr/bin/env python3
"""Bulk regression of seeded changes in parallel lanes, without touching /repo or /verif.

Each lane is a private mount namespace (unshare -m) in which a scratch git worktree of the
repository is bind-mounted at /repo and a scratch copy of this directory at /verif, so the
unchanged `./check` builds and runs against "/repo" as always - but N lanes can each hold a
different seeded change at the same time.  Results recorded in seeded/*/meta.json come from the
prescribed procedure (tools/try_seeded.py on /repo itself); this tool is for re-running the whole
collection after the machinery or the repository changed.

usage: tools/lanes.py <lanes> <jobs-per-lane> <out.jsonl> <seeded-dir>...     (needs root)
"""
import json, os, subprocess, sys, threading, queue, shutil
HERE = os.path.dirname(os.path.dirname(os.path.abspath(__file__)))
nl, jobs, outp = int(sys.argv[1]), sys.argv[2], sys.argv[3]
items = [os.path.abspath(d.rstrip("/")) for d in sys.argv[4:]]
BASE = "/tmp/lanes"
def sh(cmd, **kw):
    return subprocess.run(cmd, shell=True, capture_output=True, text=True, **kw)
head = sh("git -C /repo rev-parse HEAD").stdout.strip()
os.makedirs(BASE, exist_ok=True)
q = queue.Queue()
for it in items:
    q.put(it)
lock = threading.Lock()
def lane(k):
    root = "%s/%d" % (BASE, k)
    repo, verif = root + "/repo", root + "/verif"
    if not os.path.isdir(repo):
        os.makedirs(root, exist_ok=True)
        r = sh("git -C /repo worktree add --detach %s %s" % (repo, head))
        if r.returncode != 0:
            print("lane %d: worktree failed: %s" % (k, r.stderr), file=sys.stderr); return
    else:
        sh("git -C %s checkout -q --detach %s && git -C %s checkout -q -- ." % (repo, head, repo))
    os.makedirs(verif, exist_ok=True)
    sh("rsync -a --delete --exclude target --exclude replays --exclude .git %s/ %s/" % (HERE, verif))
    while True:
        try:
            d = q.get_nowait()
        except queue.Empty:
            return
        pid = os.path.basename(d)[:3]
        # the worktree's .git file points into /repo/.git, which is hidden inside the namespace:
        # the change is applied and undone from outside, only the check runs inside
        for f in ("rc.txt", "out.txt", "err.txt"):
            try:
                os.remove("%s/%s" % (root, f))
            except OSError:
                pass
        a = sh("git -C %s apply --whitespace=nowarn %s/patch.diff" % (repo, d))
        if a.returncode != 0:
            rec = {"change": os.path.basename(d), "id": pid, "rc": -2, "violation_lines": 0, "first": [], "lane": k, "stderr_tail": "patch does not apply: " + a.stderr[-300:]}
            with lock:
                open(outp, "a").write(json.dumps(rec) + "\n")
                print(json.dumps(rec)[:200], flush=True)
            continue
        script = ("mount --bind %s /repo && mount --bind %s /verif && cd /verif && "
                  "(VERIF_JOBS=%s ./check %s --tier quick > /tmp/lanes/%d/out.txt 2> /tmp/lanes/%d/err.txt; echo $? > /tmp/lanes/%d/rc.txt)") % (repo, verif, jobs, pid, k, k, k)
        r = sh("unshare -m sh -c '%s'" % script)
        sh("git -C %s checkout -q -- ." % repo)
        try:
            rc = int(open("%s/rc.txt" % root).read().strip())
            out = open("%s/out.txt" % root).read()
            err = open("%s/err.txt" % root).read()
        except Exception as e:
            rc, out, err = -1, "", "lane failure: %s %s" % (e, r.stderr[-300:])
        viol = [l for l in out.splitlines() if l.startswith("VIOLATION")]
        first = [l.strip() for l in err.splitlines() if l.strip().startswith(("sig:", "case:"))][:2]
        rec = {"change": os.path.basename(d), "id": pid, "rc": rc, "violation_lines": len(viol), "first": first, "lane": k}
        if rc not in (0, 1):
            rec["stderr_tail"] = err[-400:]
        with lock:
            open(outp, "a").write(json.dumps(rec) + "\n")
            print(json.dumps(rec)[:200], flush=True)
ts = [threading.Thread(target=lane, args=(k,)) for k in range(nl)]
for t in ts: t.start()
for t in ts: t.join()
