#!/bin/sh
# Runs every registered check at the given tier and prints one line per check.
cd "$(dirname "$0")/.."
TIER="${1:-quick}"
mkdir -p target
for id in $(python3 -c "import json;print(' '.join(c['property_id'] for c in json.load(open('MANIFEST.json'))['checks']))"); do
  s=$(date +%s)
  ./check "$id" --tier "$TIER" > "target/run-$id.log" 2>&1
  rc=$?
  e=$(date +%s)
  echo "$id rc=$rc $((e-s))s $(grep -c '^VIOLATION' target/run-$id.log) violations, $(grep -c '^KNOWN-FINDING' target/run-$id.log) known"
done
