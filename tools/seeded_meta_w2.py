#!/usr/bin/env python3
"""Writes meta.json for the second-campaign seeded changes from confirm.json / result.jsonl and the
hand-written table below (what each change needs to manifest, and what happened to the checks)."""
import json, os, glob
HERE = os.path.dirname(os.path.dirname(os.path.abspath(__file__)))
T = {
 "C01-w2-fraction-digit-separator-counted": ("a decimal literal with a `_` separator between or after fraction digits (`1.000_1`, `2.5_0e3`): the lexer keeps the `_` and from_parts counts it as a digit, dividing the fraction by a further 10",
   "initially MISSED in both tiers (separators appeared only in integer parts and hex): C01 gained a `_`/U+2009 separator at every accepted position of 17 literals; now caught by quick"),
 "C02-w2-trig-accepts-radian-powers": ("sin/cos/tan of a power of the angle unit other than 1 (`sin(radian^2)`, `cos(1/radian)`): the angle test looks at which base units occur, not at the exponent",
   "initially MISSED in both tiers (functions were applied to plain units only): C02 gained 6 trigonometric functions x 9 power/reciprocal/product forms of every representative unit; now caught by quick"),
 "C03-w2-zero-target-division-before-conformance": ("a conversion to a zero-valued target of another dimensionality (`1 m -> 0 s`): the division-by-zero test runs before the conformance test, so the refusal is not a conformance error",
   "initially MISSED in both tiers (no zero-valued targets): C03 gained the target shapes `0 t` and `(t - t)`; now caught by quick"),
 "C04-w2-target-constant-before-value-check": ("a conversion target whose own evaluation fails (`5 m -> m/0`, `3 m -> 2^(-1e30) m`): the target's printed constant is computed before the target value has been checked, and panics",
   "caught by quick as built before this campaign (mutated seed query `1/mpg -> L /1 00km`, exponent shapes). Independently the campaign's new `0` leaf in the target trees found two genuine defects (see known-findings C04/C06 bitwise target constant)"),
 "C05-w2-engineering-adjust-decimal-table": ("engineering notation in a base other than 10: the mantissa adjustment uses the decimal table [1, 10, 100]",
   "caught by quick as built"),
 "C06-w2-reciprocal-kilogram-rescale": ("a result with kilogram to a negative power (`1e-30 kg^-1`): the gram/kilogram rescaling uses |exponent|",
   "caught by quick as built (unit x magnitude x power family, power -1)"),
 "C07-w2-redefinition-keeps-old-definition": ("two loads on one Context where the second defines an alias again with another target (`step foot`, later `step yard`): the stored value is replaced but the definition that canonicalize follows stays the old one",
   "initially MISSED in both tiers (every check loaded each database once): C07 gained load histories (a base database followed by every subset / ordered pair of 7 redefinitions); now caught by quick. The new family also exposed the open finding C07-stale-alias-after-redefinition-in-later-load on the unchanged tree; its signature is separated from this change's by a history analysis of the loaded texts"),
 "C08-w2-prefix-negative-power-loses-reciprocal": ("a prefix defined with a negative exponent (the 12 dozenal prefixes `Zeni- 12^-1` ...): the loader's own prefix evaluator drops the reciprocal",
   "initially MISSED (prefixes keep no definition text in the registry, so the fixed point skipped them): C08 re-reads every prefix line of the bundled files and compares the runtime evaluation of its text with the prefix table and the long-prefix unit; now caught by quick"),
 "C09-w2-div-rem-truncated-divisor": ("a unit list or duration whose unit has a non-integer value in base units and a value that fits a machine word (`1609.2 m -> mile;yard`): quotient taken on truncated operands",
   "caught by quick as built (repeated-unit lists); C09 additionally gained near-multiple values (k +- e) a for every group and breakdown unit"),
 "C10-w2-scale-suffix-in-target-accepted": ("a temperature-scale suffix on a number inside a conversion target (`373.15 K -> 2 degC`)",
   "caught by quick as built"),
 "C11-w2-right-nested-sum-loses-parens": ("a sum or difference as the right operand of `+` (`a + (b + c)`): printed without parentheses, re-parses left-nested",
   "caught by quick as built"),
 "C12-w2-quantity-doc-leaks-to-next-definition": ("a quantity with a `??` doc comment followed in the same file by another definition: the comment is not consumed and lands on the next definition too, so docs depend on order and file split",
   "initially MISSED (orders were permuted after parsing each definition alone): C12 gained the text-level family (5040 orders of 7 snippets x 36 splits into files, each file parsed as a file); now caught by quick"),
 "C13-w2-prefix-closed-cycle-unchecked": ("a dependency cycle whose closing edge is a prefix used as a prefix (`y !`, `k- 1000 ky`): unbounded recursion / double visit in the resolver",
   "initially MISSED (prefix cycles were closed by exact names only): C13 gained three cycle shapes closed by prefixed names in both visiting orders; now caught by quick (worker death while loading)"),
 "C14-w2-named-zone-minus-fixed-offset-naive": ("a date with a named zone minus a date with a fixed offset when the two offsets differ",
   "caught by quick as built"),
 "C15-w2-ans-recorded-when-flag-off": ("the flag switched between queries on one context, or reading the stored previous result with the flag off",
   "caught by quick as built (flag-off histories: register must stay empty); C15 additionally gained histories over 6 queries + <flag on> + <flag off>"),
 "C16-w2-unit-ratio-shortcut-skips-conformance": ("a property asked for an amount of the wrong dimensionality whose base-unit magnitude equals the property's reference amount (`mass of kg gold`)",
   "caught by quick as built (wrong-dimension amounts built from the property's own magnitudes)"),
 "C17-w2-quantity-name-evaluated-as-expression-first": ("`units for` / `factorize` of a quantity name that also reads as a unit of another dimensionality (`force`, `mass`)",
   "caught by quick as built"),
 "C18-w2-large-request-short-write": ("a request frame larger than the pipe capacity (64 KiB): a single non-blocking write is cut short and the child waits for the rest",
   "caught by quick as built (request kind B)"),
 "C19-w2-realloc-peak-uses-block-size": ("a growing realloc while another block is live: the peak is updated with the block size instead of the usage",
   "caught by quick as built (sequential BFS half; not a race)"),
 "C20-w2-unlink-before-rename": ("SIGKILL between the unlink of the old cache file and the rename of the new one",
   "caught by quick as built (kill injected at every system call of the refresh)"),
}
for d, (needs, hist) in T.items():
    p = os.path.join(HERE, "seeded", d)
    conf = json.load(open(os.path.join(p, "confirm.json")))
    res = [json.loads(l) for l in open(os.path.join(p, "result.jsonl")) if l.strip()]
    demo = [f for f in os.listdir(p) if f.endswith((".rs", ".py"))]
    meta = {
        "property": d[:3], "campaign": 2, "breaks": "see notes.md", "needs_to_manifest": needs,
        "origin": "independent sub-agent given only the property text, the first campaign's idea as 'already tried', and a scratch worktree",
        "confirmed_by_me": {"in": "scratch worktree /tmp/wt-confirm (removed afterwards)", "how": "tools/confirm_seeded.py",
            "demo_passes_without_change": conf["demo_passes_without_change"], "patch_applies": conf["patch_applies"],
            "repository_suite_unchanged": conf["suite_matches_baseline"], "demo_fails_with_change": conf["demo_fails_with_change"]},
        "demonstration": demo,
        "checks_run": [{"check": r["id"], "tier": r["tier"], "exit": r["rc"], "first_violation": r["first"][:2]} for r in res],
        "history": hist,
    }
    json.dump(meta, open(os.path.join(p, "meta.json"), "w"), indent=1, ensure_ascii=False)
    ok = all(meta["confirmed_by_me"][k] for k in ("demo_passes_without_change", "patch_applies", "repository_suite_unchanged", "demo_fails_with_change"))
    print(d, "confirmed" if ok else "NOT CONFIRMED", "caught" if res and res[-1]["rc"] == 1 else "MISSED")
# README table
rows = ["| `%s` | %s | %s | %s |" % (d, d[:3], T[d][0].replace("|", "\\|"), T[d][1].replace("|", "\\|")) for d in T]
open(os.path.join(HERE, "seeded", "README-w2-table.md"), "w").write("\n".join(rows) + "\n")
