#!/usr/bin/env python3
"""Writes meta.json for the third-campaign seeded changes (see seeded_meta_w2.py)."""
import json, os
HERE = os.path.dirname(os.path.dirname(os.path.abspath(__file__)))
B = "caught by quick as built (machinery of commit 5fa3587)"
T = {
 "C01-w3-pow-one-goes-through-root": ("an exponent that is exactly 1 (`0.1^1`, `(-2)^1`, `x^(4/4)`): x^1 is routed through root(1) and becomes a float / an error", B + ": the sweep `a ^ k`, k = 1"),
 "C02-w3-fractional-power-ignores-numerator": ("a dimensioned base under a p/q exponent with p != 1 whose q divides the dimensions (`(m^2)^(3/2)`): the numerator is ignored", B + " (`L^(2|3)`)"),
 "C03-w3-tiny-divisor-treated-as-zero": ("a conformable, non-zero target whose value underflows f64 (`3 m -> 1e-400 m`, `1 m^14 -> ym^14`): refused as a division by zero",
   "MISSED (quick): no constant or prefixed power left the f64 range; C03 gained the target/source constants 1e-400 / 1e400 and the family `1 t^p -> (prefix t)^p`; now caught by quick"),
 "C04-w3-prettify-guard-admits-i32-min": ("a result whose single unit has the power -2^31, composed from small exponents (`(m^-65536)^32768`): SI prefixes are raised to that power",
   "MISSED (quick), written for commit c06a7f6 where it panicked in Numeric::pow(i32::MIN). C04 gained the family of unit powers composed from small exponents, which is cheap by construction. That family first found the genuine defect behind it on the unchanged tree (fixed: c3f8094 i32::MIN, 7cf2286 prefix powers bounded), and the second fix replaced the guarded line: patch.diff is the same slip re-created on the new line (`<= 1000` -> `i32::try_from(power).is_ok()`), the original is kept as patch-as-written-for-1e51942.diff; now caught by quick (timeouts on `(m^1)^32767`)"),
 "C05-w3-lookahead-recurring-block-shifted": ("a non-recurring prefix that exactly fills the digit budget followed by a recurring block of 1-3 digits (`41/384`, `13/6 -> digits 0`): the look-ahead loop prints `0 d1..d(p-1)`", B + " (7/6 base 3 digits 0)"),
 "C06-w3-recurring-lookahead-block-shifted": ("the same one-line slip as C05-w3, produced independently for C06: a displayed exact numeral with a short recurring block at the cut-off (`1 reputedpint`)", B + " (unit x magnitude family)"),
 "C07-w3-quantity-overwrites-unit-alias-definition": ("a database with a unit and a quantity of the same name where the quantity is a bare name (`glow 3 cd`, `glow ? cd`): canonicalize follows the quantity's expression",
   "MISSED (quick): the colliding pool had no quantities; it gained `min ? s` (with the unit `min 60 s`) and `n ? m` (with `n 5 m`); now caught by quick"),
 "C08-w3-definition-parser-division-right-associative": ("a definition whose text divides twice at the top level (`minersinchCO 1 ft^3/sec / 38.4`): the loader's parser groups it to the right; stored value and stored definition agree with each other but not with the text",
   "MISSED (quick): the fixed point re-evaluated the loader's own parse. C08 gained the text-level family (own line splitter, right-hand side parsed by the query parser, evaluated in the loaded context); now caught by quick"),
 "C09-w3-negative-value-skips-division": ("a negative value with magnitude of at least one non-final list unit (`-90 minute -> hour;minute`, `-36 hour`)", B),
 "C10-w3-same-scale-identity-skips-operand-check": ("a dimensioned operand under a scale suffix converted to the same scale (`(3 kg) degC -> degC`)",
   "MISSED (quick): dimensioned operands were only tried without a conversion; C10 gained 4 dimensioned operands x all 26x26 spelling pairs; now caught by quick"),
 "C11-w3-exprreply-drops-parens-of-positive-factor": ("a product whose later factor carries an explicit unary plus (`a (+b)`) printed through ExprReply", B),
 "C12-w3-cli-concatenates-definition-files": ("two definition files on the CLI search path where the first has no final newline or ends inside a `!category` block: the texts are concatenated before parsing",
   "MISSED (quick): every generated file ended with a newline outside any block; the real-binary family gained 4 file endings; now caught by quick"),
 "C13-w3-float-zero-substance-property-not-refused": ("a substance property whose value is a float zero (`0^.5`, `1e-300^1.5`): passes the exact-zero check, then panics at load or at a later query",
   "MISSED (quick): zero properties were only written as `0`; C13 gained property values that are zero in 10 representations x 3 positions; now caught by quick. The sub-agent's side observation (`k- 1^-2147483648` panics) was re-established by a new exponent-boundary family and fixed (c3f8094)"),
 "C14-w3-long-span-loses-submillisecond": ("a date difference longer than 2^63 ns (292 years) that is not a whole number of milliseconds", B),
 "C15-w3-non-numeric-reply-clears-ans": ("numeric result, then a successful non-numeric query, then a use of ans", B),
 "C16-w3-substance-division-drops-amount": ("dividing a substance that already carries an amount (`density of ((2 water) / 4)`)", B),
 "C17-w3-powi-keeps-zero-exponents": ("`units for` / `factorize` of an expression containing a unit factor raised to the power 0 (`units for m s^0`)",
   "MISSED (quick): products were written without zero-power factors although the statement's exponent range includes 0; C17 gained the spellings `p b^0` and `(p)^0 p`; now caught by quick"),
 "C18-w3-idle-gap-counted-against-time-limit": ("an idle pause of about the time limit before a legal request: the pause is subtracted from the request's budget",
   "MISSED (quick): gaps were inserted after faults only and stayed below the limit; C18 gained the request kinds slow-but-legal / long idle / short idle and all their sequences; now caught by quick"),
 "C19-w3-alloc-zeroed-no-rollback-on-parent-failure": ("alloc_zeroed of a size the system allocator refuses under an unlimited Alloc: the reservation is not rolled back", B + " (sequential BFS, usize::MAX limit)"),
 "C20-w3-transfer-error-after-200-ignored": ("a 200 response whose body is cut or stalls: the partial file is persisted", B),
}
for d, (needs, hist) in T.items():
    p = os.path.join(HERE, "seeded", d)
    conf = json.load(open(os.path.join(p, "confirm.json")))
    def rd(f):
        fp = os.path.join(p, f)
        return [json.loads(l) for l in open(fp) if l.strip()] if os.path.exists(fp) else []
    res, before = rd("result.jsonl"), rd("result-before-campaign3.jsonl")
    demo = [f for f in os.listdir(p) if f.endswith((".rs", ".py", ".sh"))]
    meta = {
        "property": d[:3], "campaign": 3, "breaks": "see notes.md", "needs_to_manifest": needs,
        "origin": "independent sub-agent given only the property text, the two earlier ideas as 'already tried', and a scratch worktree",
        "confirmed_by_me": {"in": "scratch worktree /tmp/wt-confirm (removed afterwards)", "how": "tools/confirm_seeded.py",
            "demo_passes_without_change": conf["demo_passes_without_change"], "patch_applies": conf["patch_applies"],
            "repository_suite_unchanged": conf["suite_matches_baseline"], "demo_fails_with_change": conf["demo_fails_with_change"]},
        "demonstration": demo,
        "checks_run_before_campaign": [{"check": r["id"], "tier": r["tier"], "exit": r["rc"], "first_violation": r["first"][:2]} for r in before],
        "checks_run": [{"check": r["id"], "tier": r["tier"], "exit": r["rc"], "first_violation": r["first"][:2]} for r in res],
        "history": hist,
    }
    json.dump(meta, open(os.path.join(p, "meta.json"), "w"), indent=1, ensure_ascii=False)
    ok = all(meta["confirmed_by_me"][k] for k in ("demo_passes_without_change", "patch_applies", "repository_suite_unchanged", "demo_fails_with_change"))
    print(d, "confirmed" if ok else "NOT CONFIRMED", "caught" if res and res[-1]["rc"] == 1 else "MISSED", "| before:", "caught" if before and before[-1]["rc"] == 1 else "missed")
rows = ["| `%s` | %s | %s | %s |" % (d, d[:3], T[d][0].replace("|", "\\|"), T[d][1].replace("|", "\\|")) for d in T]
open(os.path.join(HERE, "seeded", "README-w3-table.md"), "w").write("\n".join(rows) + "\n")
