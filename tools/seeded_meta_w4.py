#!/usr/bin/env python3
"""Writes meta.json for the fourth-campaign seeded changes (see seeded_meta_w2.py)."""
import json, os
HERE = os.path.dirname(os.path.dirname(os.path.abspath(__file__)))
B = "caught by quick as built (machinery of commit a51e105)"
T = {
 "C01-w4-tiny-divisor-treated-as-zero": ("a non-zero divisor (or base of a negative power) whose magnitude underflows f64 (`1 / 1e-400`): treated as zero", "MISSED (quick): no literal left the f64 range; C01 gained the literals 1e-400 / 1e400 (and the third, alternative-spelling rendering); now caught by quick"),
 "C02-w4-add-zero-skips-dimension-check": ("`+` whose right operand is an exact zero of another dimensionality (`5 m + 0 s`)", B + " (`m + (s - s)` in the depth-2 trees); C02 additionally gained zero coefficients on the right"),
 "C03-w4-signed-two-digit-target-eaten-by-offset-parser": ("a conversion target starting with a sign and a two-digit integer (`3 m -> -12 ft`): the time-offset parser eats tokens", "MISSED (quick): signed targets were `-t` only; C03 gained `-12 t`, `+12 t`, `-12*t`, `-05 t`; now caught by quick"),
 "C04-w4-substance-doc-list-without-listbegin": ("a substance with its own doc string (`egg`) rendered by a frontend that indents list items (CLI REPL with long_output): ListSep without ListBegin underflows the indentation", "MISSED (quick): the span tree was walked but its list structure was not checked; C04 now requires every ListSep to lie inside a list; now caught by quick"),
 "C05-w4-recurring-digits-i64-overflow": ("a recurring block of 7-9 digits in a base >= 12 with a large remainder (`(16^9-2)/(16^9-1) -> hex`): i64 overflow", "MISSED (quick): blocks that long had small remainders; C05 gained (b^p-2)/(b^p-1) ... for every base and p <= 10; now caught by quick"),
 "C06-w4-derived-unit-regrouping-without-value-one-check": ("a custom database in which newton, joule, ... are not 1 in base units: results are regrouped into those names without adjusting the numeral", "MISSED (quick): only the bundled database was displayed; C06 gained a CGS-style database (which also found the genuine `tonne` defect d87d183); now caught by quick"),
 "C07-w4-resolver-skips-call-arguments": ("a definition arriving as a parsed entry (JSON) that names an exactly defined unit inside a function call (`sqrt(900 min^2)`): the dependency is not resolved first, so the prefix reading is used", "MISSED (quick): no definition contained a call; every sub-database now loads one query-parser entry with a call; now caught by quick. Two side observations were re-established and fixed (aca679f long-name forward reference, 9896016 canonical spelling colliding with an exact unit)"),
 "C08-w4-quantity-power-loses-negative-exponents": ("a quantity defined as a power of a quantity with mixed-sign exponents (`conductance ? resistance^-1`)", "MISSED (quick): quantities were listed but their dimensionality was not re-derived; C08 gained the quantity fixed point by an own evaluator; now caught by quick"),
 "C09-w4-zero-value-accepted-by-any-list": ("an exactly zero value of another dimensionality (`0 kg -> hour;minute`)", "MISSED (quick): non-conformable values were 3 only; now 3, 0 and (5 - 5); now caught by quick"),
 "C10-w4-degree-spellings-re-ro-swapped": ("the ASCII degree-sign spellings `°Re` / `°Ro`", B),
 "C11-w4-zero-argument-call-not-reparsed": ("a call without arguments (`sin()`): printed as before, no longer parsed", "MISSED (quick): the generated `sqrt()` leaf parsed to an error node, which was counted as 'not a tree of the quantifier'; that is now a violation, and zero-argument calls of all functions are also built directly from the AST; now caught by quick"),
 "C12-w4-symbol-directive-only-before-substance": ("a `!symbol` directive placed after its substance in the same file", "MISSED (quick): the directive never moved; the text-level family gained 3 positions of the directive; now caught by quick"),
 "C13-w4-failed-substance-leaves-scratch-names": ("a substance whose later property is rejected: scratch names survive and resolve afterwards", B + " (scratch map must be empty after small loads)"),
 "C14-w4-time-only-literal-takes-local-day": ("a time-only literal with an offset or zone whose calendar day differs from the local one at the current clock", B),
 "C15-w4-base-10-conversion-sets-ans": ("`x -> base 10` (parsed to the plain-expression form) sets ans", "MISSED (quick): the alphabet had three conversion spellings; C15 gained `2 m ; X ; ans` for 34 spellings; now caught by quick"),
 "C16-w4-formula-shaped-substance-name-read-as-formula": ("a property other than molar_mass of a substance addressed by a formula-shaped name (`specific_heat of H2O`)", B),
 "C17-w4-factorize-cache-survives-across-contexts": ("a second factorize on the same thread against another quantity table (another context, or the same one after a load)", "MISSED (quick): one context per worker; C17 gained the small second database and the load-in-between history; now caught by quick"),
 "C18-w4-panic-report-truncated-mid-character": ("a panic report longer than 4096 bytes with a multi-byte character across the cut: the parent's management task dies", "MISSED (quick), and missed again by the first strengthening (a 10 kB report in two scripts happened to put a character boundary at byte 4096): C18 now sends the long report at all four byte alignments of a four-byte script; now caught by quick. The sub-agent's side observation (an over-limit request kills the sandbox for good) was re-established by the new request kind H and fixed (6b40bb0)"),
 "C19-w4-realloc-charges-padded-size": ("a realloc to a size that is not a multiple of the block's alignment", "MISSED (quick): every layout was byte-aligned; the BFS now also runs with 8-aligned layouts; now caught by quick"),
 "C20-w4-retry-appends-to-partial-download": ("first request of a refresh cut after k bytes, second complete: the retry appends to the partial temp file", "MISSED (quick): the fault server answered every request of a scenario alike; it gained 'first cut, later complete'; now caught by quick"),
}
for d, (needs, hist) in T.items():
    p = os.path.join(HERE, "seeded", d)
    conf = json.load(open(os.path.join(p, "confirm.json")))
    def rd(f):
        fp = os.path.join(p, f)
        return [json.loads(l) for l in open(fp) if l.strip()] if os.path.exists(fp) else []
    res, before = rd("result.jsonl"), rd("result-before-campaign4.jsonl")
    demo = [f for f in os.listdir(p) if f.endswith((".rs", ".py", ".sh"))]
    meta = {
        "property": d[:3], "campaign": 4, "breaks": "see notes.md", "needs_to_manifest": needs,
        "origin": "independent sub-agent given only the property text, the three earlier ideas as 'already tried', and a scratch worktree",
        "confirmed_by_me": {"in": "scratch worktree /tmp/wt-confirm (removed afterwards)", "how": "tools/confirm_seeded.py",
            "demo_passes_without_change": conf["demo_passes_without_change"], "patch_applies": conf["patch_applies"],
            "repository_suite_unchanged": conf["suite_matches_baseline"], "demo_fails_with_change": conf["demo_fails_with_change"]},
        "demonstration": demo,
        "checks_run_before_campaign": [{"check": r["id"], "tier": r["tier"], "exit": r["rc"], "first_violation": r["first"][:2]} for r in before],
        "checks_run": [{"check": r["id"], "tier": r["tier"], "exit": r["rc"], "first_violation": r["first"][:2]} for r in res],
        "history": hist,
    }
    json.dump(meta, open(os.path.join(p, "meta.json"), "w"), indent=1, ensure_ascii=False)
    ok = all(meta["confirmed_by_me"][k] for k in ("demo_passes_without_change", "patch_applies", "repository_suite_unchanged", "demo_fails_with_change"))
    print(d, "confirmed" if ok else "NOT CONFIRMED", "caught" if res and res[-1]["rc"] == 1 else "MISSED", "| before:", "caught" if before and before[-1]["rc"] == 1 else "missed")
rows = ["| `%s` | %s | %s | %s |" % (d, d[:3], T[d][0].replace("|", "\\|"), T[d][1].replace("|", "\\|")) for d in T]
open(os.path.join(HERE, "seeded", "README-w4-table.md"), "w").write("\n".join(rows) + "\n")
