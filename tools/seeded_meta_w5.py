#!/usr/bin/env python3
"""Writes meta.json for the fifth-campaign seeded changes (see seeded_meta_w2.py)."""
import json, os
HERE = os.path.dirname(os.path.dirname(os.path.abspath(__file__)))
B = "caught by quick as built (machinery of commit a2c66e2)"
T = {
 "C01-w5-negative-odd-power-loses-sign": ("a negative base under a negative odd integer exponent (`(-2)^-3`): the sign is restored with `exp % 2 == 1`, which is -1 for negative odd exponents", B + " (sweep `a ^ k`)"),
 "C02-w5-list-conformance-checked-in-disjoint-pairs": ("a unit list of three or more members whose foreign member sits at an even position (`hour, minute, meter`)", "MISSED (quick): C02 only built two-member lists (C09 has longer ones, but each change is judged by its own property's check); C02 gained lists of 3 and 4 with one foreign member at every position; now caught by quick"),
 "C03-w5-missing-factor-odd-power-halved": ("a refused conversion whose quotient is an odd power >= 3 of a named quantity (`1 W -> kg m^2`): the named factor is halved", B + " (suggestions are parsed back)"),
 "C04-w5-base-of-non-number-hits-unreachable": ("a date, substance or `now` converted to a base without a digits option (`now -> hex`, `egg -> bin`)", B + " (token soups)"),
 "C05-w5-scientific-scale-cache-ignores-base": ("two exponent-form numerals in a row on one thread with the same |exponent| in different bases (`15 -> sci`, then `15 -> sci base 12`)", "reported as a MACHINERY ERROR (exit 2) by the machinery as built: violations appeared but did not recur when re-run alone. C05 gained the family 'a numeral printed right after another one' (reproducible within one case), and the engine gained a second confirmation stage (re-run after the preceding cases of the chunk; what recurs there is reported as history-dependent; what still does not recur is dropped only if other violations are confirmed); now caught by quick"),
 "C06-w5-conversion-factor-printed-truncated": ("a conversion target with a non-round constant of ten or more digits (`1 GiB -> 1073741824 byte`)", "MISSED (quick): target constants were small; C06 gained large non-round factors and divisors; now caught by quick"),
 "C07-w5-ans-lookup-ignores-case": ("a context that holds a previous answer, and a name equal to `ans` ignoring case (`aNs` = atto-newton-s)", "MISSED (quick): names were looked up on fresh contexts only; C07 gained a mid-session configuration of the bundled sweep; now caught by quick"),
 "C08-w5-lookup-cache-survives-currency-load": ("the currency overlay loaded after the context has been asked for a currency name", "MISSED (quick): nothing was asked between the two loads; C08 gained a whole-database check that queries and looks up names between the loads and requires the identical database; now caught by quick"),
 "C09-w5-duration-units-cached-across-loads": ("a time result, then a load that defines year/week/day/hour/minute again, then another time result", "MISSED (quick): no loads between queries; C09 gained load histories for the automatic breakdown; now caught by quick"),
 "C10-w5-scale-target-with-format-modifier-refused": ("a scale target behind a format modifier (`-> frac degC`, `-> digits 20 degF`)", "MISSED (quick): no modifiers in front of scale targets; C10 gained 6 modifiers x all x and scale pairs; now caught by quick"),
 "C11-w5-exprstring-deserialises-borrowed-str-only": ("a serialised definition whose JSON string needs escapes (a `\"` or a tab inside a quoted name, non-ASCII escaped by the producer) or that travels as a serde_json::Value", "MISSED (quick): one serde route, no characters needing escapes; C11 gained four routes and an awkward quoted leaf; now caught by quick"),
 "C12-w5-plural-fallback-skips-prefix-dependencies": ("a reference spelled as a prefixed plural (`kilozots`) from a definition that sorts before its targets", B + " (`z_long 5 kilometers`, added in the previous campaign); the pool additionally gained `a_plur 3 kilod1s`. The patch was re-created on the new HEAD (patch-as-written-for-d87d183.diff is the original). The sub-agent's side observation (a unit defined by a chemical formula fails to load when it sorts before an element) was re-established and fixed (62ff3cf)"),
 "C13-w5-empty-fraction-after-decimal-point-panics": ("a numeral with a decimal point not followed by a digit (`3.`, `1.e3`, `.`) in a definitions file", "MISSED (quick): no such spelling in the soup alphabet; it gained `3.` and `.`; now caught by quick. Side observations re-established and fixed: c3f8094-style exponent overflow in quantities (90a7f4a) and - through the thorough tier - my own regression ea7f75e"),
 "C14-w5-fraction-seconds-through-f64": ("a date literal with a 4-9 digit fraction of a second among the ~1.7 % that mis-round through f64 (`.0157`)", "MISSED (quick): 36 fraction values; C14 gained every 4-digit fraction and 2000 values of each length 5..9; now caught by quick"),
 "C15-w5-date-pattern-hint-remembered": ("user date patterns with overlapping readings, and a literal that only the later pattern reads between two occurrences of an ambiguous one", "MISSED (quick): bundled patterns only, and the reference context was reused across steps (a memory behind `&Context` moved in step with the subject). C15 gained histories of date literals under user patterns with a reference context built anew before every step; now caught by quick"),
 "C16-w5-formula-cache-ignores-database": ("the same formula text evaluated against other element data on the same thread (another database, or after a load)", "MISSED (quick): one database per worker; C16 gained formulas in a second database, after a redefining load, and in a database without elements; now caught by quick"),
 "C17-w5-factorize-needs-magnitude-one": ("`factorize` of a value whose magnitude is not 1 (`2 J`, `kWh`, `foot`)", B),
 "C18-w5-oversized-reply-left-in-pipe": ("a reply larger than 16 MiB followed by further requests", "MISSED (quick): replies were small; C18 gained the request kind R (small request, 20 MiB reply); now caught by quick"),
 "C19-w5-reset-max-stores-zero": ("reset_max with live blocks, then get_max before any successful allocation", B),
 "C20-w5-short-write-reported-as-full": ("a complete 200 body while the final local write is cut short (disk full / quota)", "MISSED (quick), and missed again by the first strengthening (a 4096-byte limit cuts an early write and makes later ones fail outright): C20 now also limits the file size to the last 512-byte boundary below the body length, so that only the final write is short; now caught by quick"),
}
for d, (needs, hist) in T.items():
    p = os.path.join(HERE, "seeded", d)
    conf = json.load(open(os.path.join(p, "confirm.json")))
    def rd(f):
        fp = os.path.join(p, f)
        return [json.loads(l) for l in open(fp) if l.strip()] if os.path.exists(fp) else []
    res, before = rd("result.jsonl"), rd("result-before-campaign5.jsonl")
    demo = [f for f in os.listdir(p) if f.endswith((".rs", ".py", ".sh"))]
    meta = {
        "property": d[:3], "campaign": 5, "breaks": "see notes.md", "needs_to_manifest": needs,
        "origin": "independent sub-agent given only the property text, the four earlier ideas as 'already tried', and a scratch worktree",
        "confirmed_by_me": {"in": "scratch worktree /tmp/wt-confirm (removed afterwards)", "how": "tools/confirm_seeded.py",
            "demo_passes_without_change": conf["demo_passes_without_change"], "patch_applies": conf["patch_applies"],
            "repository_suite_unchanged": conf["suite_matches_baseline"], "demo_fails_with_change": conf["demo_fails_with_change"]},
        "demonstration": demo,
        "checks_run_before_campaign": [{"check": r["id"], "tier": r["tier"], "exit": r["rc"], "first_violation": r["first"][:2]} for r in before],
        "checks_run": [{"check": r["id"], "tier": r["tier"], "exit": r["rc"], "first_violation": r["first"][:2]} for r in res],
        "history": hist,
    }
    json.dump(meta, open(os.path.join(p, "meta.json"), "w"), indent=1, ensure_ascii=False)
    ok = all(meta["confirmed_by_me"][k] for k in ("demo_passes_without_change", "patch_applies", "repository_suite_unchanged", "demo_fails_with_change"))
    print(d, "confirmed" if ok else "NOT CONFIRMED", "caught" if res and res[-1]["rc"] == 1 else "MISSED", "| before:", "caught" if before and before[-1]["rc"] == 1 else "missed")
rows = ["| `%s` | %s | %s | %s |" % (d, d[:3], T[d][0].replace("|", "\\|"), T[d][1].replace("|", "\\|")) for d in T]
open(os.path.join(HERE, "seeded", "README-w5-table.md"), "w").write("\n".join(rows) + "\n")
