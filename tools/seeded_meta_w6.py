#!/usr/bin/env python3
"""Writes meta.json for the sixth-campaign seeded changes (see seeded_meta_w2.py)."""
import json, os
HERE = os.path.dirname(os.path.dirname(os.path.abspath(__file__)))
B = "caught by quick as built (machinery of commit 970ee59)"
T = {
 "C01-w6-mod-common-denominator-fast-path": ("`mod` of two non-integers that share a denominator (`0.5 mod 1.5`): a fast path works on the numerators and forgets to divide the remainder back", B + " (operand sweep of `mod`)"),
 "C02-w6-root-of-negative-power-accepted": ("a root (`sqrt`, `^(1|n)`) of a value with a negative unit power that n does not divide (`sqrt(16 hertz)`): `%` keeps the sign of the dividend, so the exactness test passes", B + ". This change replaces the first one delivered for C02 in this campaign (unit exponent sums beyond i64 cancel the unit): that one pointed at a genuine defect next to it - the unchanged tree panicked on the same input - which was repaired (77d7ded: unit powers limited to 2^61), after which the seeded slip can no longer be reached from a query"),
 "C03-w6-longest-prefix-only": ("a unit name that carries two prefixes which are both prefixes of the text (`dabmho` = da + bmho or d + abmho): only the longest prefix is tried", B),
 "C04-w6-lowercase-timezone-accepted-then-unwrapped": ("a conversion to a lower-case or mixed-case word that chrono-tz accepts case-insensitively but the second, exact parse does not (`meter -> eet`)", B + " (zone-like words family, added while the sub-agents were still running)"),
 "C05-w6-remainder-history-evicted": ("a recurring fraction whose block starts after more than 1000 places (`1/(17*10^1200)`): the remainder history is capped and the block is searched among the survivors", "MISSED by the machinery of 970ee59: no value with a pre-period beyond 1000 places; C05 gained five such values; now caught by quick"),
 "C06-w6-counted-substance-conversion-ignores-count": ("a counted substance converted to a unit of one of its properties (`12 alphaparticle -> kg`): the count is dropped", "MISSED by 970ee59: substances appeared only uncounted in conversions; C06 gained the counted-substance differential family; now caught by quick"),
 "C07-w6-prefixed-lookup-memo-survives-loads": ("a prefixed name looked up, then a load that defines its base again, then the same lookup (a memo inside the context that is not cleared by a load of parsed entries)", "MISSED by 970ee59: later files were loaded as text and nothing was looked up before each load; C07 gained reload variants (parsed entries / text, with and without a lookup of every name before each load); now caught by quick"),
 "C08-w6-substance-const-name-shadowed-by-reciprocal": ("a substance whose const property name is also its reciprocal property's output name (`electron`): the stored const is taken from the wrong entry", "MISSED by 970ee59: substance properties had no fixed-point check; C08 gained one (earlier names of the block bound from the stored values); now caught by quick"),
 "C09-w6-equal-sized-member-treated-as-last": ("a unit list with two members of equal size (`1 statmaxwell -> statmaxwell;statmaxwell`, `hour;60 min`)", B),
 "C10-w6-scale-target-followed-by-separator-accepted": ("a scale target followed by `,` `;` `)` or a second arrow (`20 degC -> degF -> degC`): accepted, the rest dropped", "MISSED by 970ee59: the refusal shapes put words and operators after a scale target, never a separator or a second arrow; C10 gained 16 shapes; now caught by quick"),
 "C11-w6-quote-printed-with-escape-default": ("a quoted unit containing a non-ASCII character, a `\"` or a CR: printed with Rust's escape_default, which the lexer does not read back", B + " (the awkward quoted leaf added in the fifth campaign)"),
 "C12-w6-named-exponent-not-followed": ("a unit definition whose exponent is a named dimensionless unit that sorts after the defining name (`aacube edge^three`): the resolver does not follow exponents", "MISSED by 970ee59: every name in the pool stood in a product, sum or alias; the pool gained definitions with a name in an exponent, a property access, under a unary minus and as a divisor, each from a name that sorts first; now caught by quick. The patch was re-created on the iterative resolver (patch-as-written-for-c568752.diff is the original)"),
 "C13-w6-datepattern-nonspace-whitespace-loops": ("a date-pattern line with a tab, NBSP, U+3000 or CR between fields: the inner loop consumes only U+0020 and the outer one never advances", "MISSED by 970ee59: the date-pattern soup had U+0020 as its only white space; it gained tab, NBSP, U+3000, CR and LF; now caught by quick. The sub-agent's four side observations were all re-established and repaired (7229aa5, 77d7ded, bfba23f, 631bd21)"),
 "C14-w6-named-zone-add-uses-wall-clock": ("date + duration where the date is written with a named DST zone and the interval contains a transition", B + " (named-zone literals across transitions)"),
 "C15-w6-unknown-unit-memo-hides-ans": ("`ans` used before any result exists, then a result, then the same spelling of `ans` again: a memo of unknown names (a RefCell behind `&Context`) answers", "reported as a MACHINERY ERROR (exit 2) by 970ee59: the memo also lives in the shared reference context, which the first use contaminated for every later history of the worker, so violations appeared in innocent histories and did not recur alone. C15 now runs every history in a forked copy of the worker and takes every reference reply from a forked, never-queried copy of the database (engine/src/forked.rs); now caught by quick, twice as fast"),
 "C16-w6-renamed-substance-loses-amount": ("a definitions file that gives a name to a scaled sum of substances (`syngas_pair 2 (carbon + oxygen)`): the rename drops the amount", "MISSED by 970ee59: substances were only ever scaled inside a query; C16 gained nine named definitions of scaled, divided and summed substances compared with their bracketed expressions; now caught by quick"),
 "C17-w6-base-unit-without-long-name-dropped": ("`units for` a dimensionality that is a single base unit declared without a long name (bit, radian, IU, wholenote)", B),
 "C18-w6-refused-realloc-leaks-old-size": ("a request that grows a large buffer with a fallible call, is refused by the limit and answers that itself, followed by a legal large allocation in the same child", "MISSED by 970ee59: every request either stayed far below the memory limit or died of it; C18 gained the kinds F (30 MiB fill) and E (refused growth reported by the request) and all their sequences; now caught by quick"),
 "C19-w6-rollback-inside-debug-assert": ("a build without debug assertions: the rollback of a refused reservation sits inside a debug_assert!", "MISSED by 970ee59: both halves ran in one build profile (debug assertions on); C19 now runs the sequential search and all loom bodies in the checked profile and again in the profile of a released build; now caught by quick"),
 "C20-w6-future-mtime-skips-refresh-and-fallback": ("a cache file dated ahead of the clock (by 90 s or a day): the age computation fails and the error leaves `cached()` before the download and before the fallback", "MISSED by 970ee59: stale meant older; C20 gained two prior states dated in the future; now caught by quick"),
}
for d, (needs, hist) in T.items():
    p = os.path.join(HERE, "seeded", d)
    conf = json.load(open(os.path.join(p, "confirm.json")))
    def rd(f):
        fp = os.path.join(p, f)
        return [json.loads(l) for l in open(fp) if l.strip()] if os.path.exists(fp) else []
    res, before = rd("result.jsonl"), rd("result-before-campaign6.jsonl")
    demo = [f for f in os.listdir(p) if f.endswith((".rs", ".py", ".sh"))]
    meta = {
        "property": d[:3], "campaign": 6, "breaks": "see notes.md", "needs_to_manifest": needs,
        "origin": "independent sub-agent given only the property text, the five earlier ideas as 'already tried', and a scratch worktree",
        "confirmed_by_me": {"in": "scratch worktree /tmp/wt-confirm (removed afterwards)", "how": "tools/confirm_seeded.py",
            "demo_passes_without_change": conf["demo_passes_without_change"], "patch_applies": conf["patch_applies"],
            "repository_suite_unchanged": conf["suite_matches_baseline"], "demo_fails_with_change": conf["demo_fails_with_change"]},
        "demonstration": demo,
        "checks_run_before_campaign": [{"check": r["id"], "tier": r["tier"], "exit": r["rc"], "first_violation": r["first"][:2]} for r in before],
        "checks_run": [{"check": r["id"], "tier": r["tier"], "exit": r["rc"], "first_violation": r["first"][:2]} for r in res],
        "history": hist,
    }
    json.dump(meta, open(os.path.join(p, "meta.json"), "w"), indent=1, ensure_ascii=False)
    ok = all(meta["confirmed_by_me"][k] for k in ("demo_passes_without_change", "patch_applies", "repository_suite_unchanged", "demo_fails_with_change"))
    print(d, "confirmed" if ok else "NOT CONFIRMED", "caught" if res and res[-1]["rc"] == 1 else "MISSED", "| before:", "caught" if before and before[-1]["rc"] == 1 else "missed")
rows = ["| `%s` | %s | %s | %s |" % (d, d[:3], T[d][0].replace("|", "\\|"), T[d][1].replace("|", "\\|")) for d in T]
open(os.path.join(HERE, "seeded", "README-w6-table.md"), "w").write("\n".join(rows) + "\n")
