#!/usr/bin/env python3
"""Writes meta.json for the seventh-campaign seeded changes (see seeded_meta_w2.py)."""
import json, os
HERE = os.path.dirname(os.path.dirname(os.path.abspath(__file__)))
B = "caught by quick as built (machinery of commit 2522468)"
T = {
 "C01-w7-hex-literal-top-bit-sign": ("a hexadecimal literal of exactly 16 digits with the top bit set (`0x8000000000000000`..`0xffffffffffffffff`): a fast path through u64 casts to i64", "MISSED by the machinery of 2522468: the literal alphabet had no value between 2^32 and 2^64+1 in hexadecimal; C01 gained 14 word-boundary values in every notation, also as literals of their own; now caught by quick"),
 "C02-w7-exponent-2-pow-31-wraps": ("a unit raised to exactly 2147483648: the range check became `>` and the exponent wraps to -2^31 when narrowed to i32", "MISSED by 2522468: single exponents stopped at 2^31-1; C02's exponent-edge family gained +-2^31, +-(2^31+-1) and 2^32+-1; now caught by quick"),
 "C03-w7-exponent-2-pow-31-wraps-in-target": ("the same slip (found independently by a second sub-agent), seen through conversions: `1 m^-2147483648 -> m^2147483648` is answered, `(m^1073741824)^2 -> m^2147483648` is refused as a mismatch", "MISSED by 2522468: C03 had no powers near the ends of i32; it gained `1 u^a -> u^b` over 11 spellings of such powers (a number only if a == b, a conformance error only if a != b); now caught by quick"),
 "C04-w7-infinite-exponent-on-unit-reaches-root-0": ("a unit raised to a float +Inf (`m^exp(1000)`, `s^-ln(0)`): the exponent reads as 1/0 and `root(0)` takes a remainder by zero", "MISSED by 2522468: the float specials stood in 26 contexts, none of them the exponent of a unit; eight such contexts were added; now caught by quick"),
 "C05-w7-period-label-counts-prefix": ("a recurring block longer than 10 digits after a non-recurring prefix, in a digits mode (`1/34 -> digits`): the stated period counts the prefix", B),
 "C06-w7-unit-list-sorted-before-breakdown": ("a unit list that is not written largest-first (`90 min -> min;hour`): the breakdown runs over the sorted units but the numerals are paired with the names as written", "MISSED by 2522468: C06 judged every list entry against its own raw part, never the sum, and its lists were descending; it gained 8 ascending / unsorted lists and the check that the entries, each read with the unit printed next to it, add up to the value; now caught by quick"),
 "C07-w7-canonicalize-strips-every-trailing-s": ("a name that resolves only as a plural and whose singular ends in `s` (`Gss`, `mss`): canonicalize strips every trailing s, lookup exactly one", B),
 "C08-w7-overlay-entry-dropped-when-name-already-reads": ("an overlay entry whose name already reads as prefix + unit in the base database (`fin` = femto-inch): silently dropped from the currency load", "MISSED by 2522468: every check started from the names the registry holds; C08 now also starts from the entries of the loaded files and of the snapshot, each of which must be stored under its own name; now caught by quick"),
 "C09-w7-last-member-assumed-smallest": ("a unit list whose last member is not its smallest (`90 s -> second;hour`)", B),
 "C10-w7-thin-space-before-scale-not-consumed": ("U+2009 (the SI thin space) between the number and the scale (`20<U+2009>degC`)", "MISSED by 2522468: number and scale were always separated by one U+0020; C10 gained 7 literals x 5 separators (space, none, tab, two spaces, thin space) x 26 spellings, alone and converted; now caught by quick"),
 "C11-w7-percent-printed-as-postfix-sign": ("the unit `percent` after a power or inside a product of three factors: printed as the postfix `%`, which binds tighter", "MISSED by 2522468: no leaf with a second spelling in the lexer; `percent` was added to the leaves; now caught by quick"),
 "C12-w7-single-element-formula-not-a-dependency": ("a unit defined by a formula of one element (`dioxygen O2`) whose name sorts before the element", "MISSED by 2522468: the pool's formula definitions had two elements; it gained `aaoxy O2`, `zzoxy O3`, `aacarb C`; now caught by quick. The sub-agent's two side observations were re-established and repaired (65289ff, f11dd30)"),
 "C13-w7-conflicting-quantity-without-definition": ("two quantities of one dimensionality in one file, the later one named like the plural of a unit, then a query for it: a registry entry without a definition", "MISSED by 2522468: no file had two quantities of one dimensionality; C13 gained every pair of quantity definitions over 8 names x 4 dimensionalities, each name queried afterwards; now caught by quick"),
 "C14-w7-offset-truncated-to-32-bits": ("an offset outside the i32 range handed over through the public AST (`Conversion::Offset(2^32 + 3600)`): truncated, then accepted", "MISSED by 2522468: offsets were only ever written as text (at most 99:99); C14 gained 26 offsets given through Context::eval_query; now caught by quick"),
 "C15-w7-clock-read-only-once-per-context": ("two queries through `rink_core::eval` on one context: the clock is read for the first one only", "MISSED by 2522468: the reference context was given the subject's clock, so a stale clock agreed with itself; C15 now requires the context's clock to lie between the start and the end of each call; now caught by quick"),
 "C16-w7-repeated-element-overwrites-count": ("a formula that names an element twice (`CH3COOH`, `AcAc`): the later count replaces the earlier", B + " (ordered pairs of symbols include equal ones)"),
 "C17-w7-base-unit-appended-after-category-sort": ("a database in which a base unit without a long name shares a category with a derived unit, and another category sorts later", "MISSED by 2522468: the bundled database has no such layout; C17 gained 54 small databases with categories x 4 spellings; now caught by quick"),
 "C18-w7-reply-buffer-kept-for-the-childs-life": ("a large reply, then a legal request that needs most of the memory limit in the same child: the reply buffer is kept", "MISSED by 2522468: after a 20 MiB reply nothing needed more than 30 MiB of the 64 MiB limit; the memory family now has the 20 MiB reply in its alphabet and ends with a 46 MiB allocation; now caught by quick"),
 "C19-w7-limit-check-underflows-above-limit": ("tracked usage above the limit (set_limit below current usage, or a refused request in flight): `limit - used` underflows", B),
 "C20-w7-unreadable-cache-sliced-mid-character": ("an unreadable cache that is valid UTF-8 with a multi-byte character across byte 40: the error message slices it", "MISSED by 2522468: the unreadable prior state was ASCII; C20 gained stale / fresh unreadable UTF-8 at all four byte alignments; now caught by quick"),
}
for d, (needs, hist) in T.items():
    p = os.path.join(HERE, "seeded", d)
    conf = json.load(open(os.path.join(p, "confirm.json")))
    def rd(f):
        fp = os.path.join(p, f)
        return [json.loads(l) for l in open(fp) if l.strip()] if os.path.exists(fp) else []
    res, before = rd("result.jsonl"), rd("result-before-campaign7.jsonl")
    demo = [f for f in os.listdir(p) if f.endswith((".rs", ".py", ".sh"))]
    meta = {
        "property": d[:3], "campaign": 7, "breaks": "see notes.md", "needs_to_manifest": needs,
        "origin": "independent sub-agent given only the property text, the six earlier ideas as 'already tried', and a scratch worktree",
        "confirmed_by_me": {"in": "scratch worktree /tmp/wt-confirm (removed afterwards)", "how": "tools/confirm_seeded.py",
            "demo_passes_without_change": conf["demo_passes_without_change"], "patch_applies": conf["patch_applies"],
            "repository_suite_unchanged": conf["suite_matches_baseline"], "demo_fails_with_change": conf["demo_fails_with_change"]},
        "demonstration": demo,
        "checks_run_before_campaign": [{"check": r["id"], "tier": r["tier"], "exit": r["rc"], "first_violation": r["first"][:2]} for r in before],
        "checks_run": [{"check": r["id"], "tier": r["tier"], "exit": r["rc"], "first_violation": r["first"][:2]} for r in res],
        "history": hist,
    }
    json.dump(meta, open(os.path.join(p, "meta.json"), "w"), indent=1, ensure_ascii=False)
    ok = all(meta["confirmed_by_me"][k] for k in ("demo_passes_without_change", "patch_applies", "repository_suite_unchanged", "demo_fails_with_change"))
    print(d, "confirmed" if ok else "NOT CONFIRMED", "caught" if res and res[-1]["rc"] == 1 else "MISSED", "| before:", "caught" if before and before[-1]["rc"] == 1 else "missed")
rows = ["| `%s` | %s | %s | %s |" % (d, d[:3], T[d][0].replace("|", "\\|"), T[d][1].replace("|", "\\|")) for d in T]
open(os.path.join(HERE, "seeded", "README-w7-table.md"), "w").write("\n".join(rows) + "\n")
