#!/usr/bin/env python3
"""Writes meta.json for the eighth-campaign seeded changes (see seeded_meta_w2.py)."""
import json, os
HERE = os.path.dirname(os.path.dirname(os.path.abspath(__file__)))
B = "caught by quick as built (machinery of commit 2be94a1)"
T = {
 "C01-w8-star-then-mod-regrouped": ("an explicit `*` directly in front of `mod`, `and`, `or`, `xor` (`2 * 3 mod 4`): the operator takes only the last factor", B + " (the operator trees render `*` explicitly)"),
 "C02-w8-float-exponent-keeps-units": ("an exponent that is a machine float (`m^sqrt(4)`): the units are returned unchanged", "MISSED by the machinery of 2be94a1: every exponent was an exact rational; C02 gained five float exponents (sqrt(4), sqrt(0.25), sqrt(2), -sqrt(9), sqrt(4) - 2) on every unit; now caught by quick"),
 "C03-w8-cancelled-unit-name-kept-in-target": ("a compound target in which a unit name cancels exactly (`6 s -> m s / m`): the reply still names it (the slip sits in the helper introduced by repair 77d7ded)", "MISSED by 2be94a1: C03 judged the number, not what the reply says it is a number of; the units named in the reply must now have the target's dimensionality; now caught by quick"),
 "C04-w8-duration-at-the-i64-millisecond-edge": ("a date plus or minus a duration within 2 ms of +-i64::MAX milliseconds: chrono's TimeDelta is one narrower than i64", "MISSED by 2be94a1: date arithmetic was only tried with small and with absurdly large durations; C04 gained 22 durations at the ends of the time types in 8 forms; now caught by quick"),
 "C05-w8-integer-digit-count-underestimated": ("a numerator beyond 1024 bits over a denominator whose leading digits are 8-9, 64-99, 512-999 (`1e400 + 1/8 -> digits`): the integer part loses its leading digit", "MISSED by 2be94a1: the digit-count boundary values were small; C05 gained them with b^400 in front; now caught by quick"),
 "C06-w8-float-quotient-floored-remainder-truncated": ("a negative float value in a unit list (`-sqrt(2) hour -> hour;min`): quotient floored, remainder truncated (the slip sits next to repair bfd0c24)", "MISSED by 2be94a1: C06's lists had exact values only; it gained six float-valued lists of either sign with the sum judged up to rounding; now caught by quick"),
 "C07-w8-resolver-visits-in-hash-order": ("two contexts of one database: the resolver's work list became a HashSet, so prefixes are stored in a per-load order and `dau` is deci-au in one context and deka-u in the next", "caught in one run of the machinery of 2be94a1 and reported as a MACHINERY ERROR (exit 2) in two others: the subject itself is nondeterministic, C07 compared the lookups of two loads name by name, and a difference found once rarely recurred when the case was repeated. C07 now compares the order of the stored prefix tables of its two loads (a difference there recurs with near certainty), and the engine gained a third confirmation stage: a violation that recurs neither alone nor after its chunk's history is repeated eight times in fresh workers and reported as intermittent if it shows again; now caught by quick in every run"),
 "C08-w8-resolver-visits-in-hash-order": ("the same slip, delivered independently for C08: two loads give differently ordered prefix tables", B + " (two independent loads must give identical Debug dumps)"),
 "C09-w8-float-quotient-saturates-at-i64": ("a float value whose whole part in a list unit exceeds 2^63 (`exp(100) m -> km;m`): taken through an i64", "MISSED by 2be94a1: the float lists (added the same day) had moderate values; six lists with whole parts beyond 2^63 were added; now caught by quick"),
 "C10-w8-conversion-reply-becomes-ans": ("a session through the public helper: `20 degC`, `ans -> degF`, `ans -> degRe` - the helper stores the conversion's bare number as ans", "MISSED by 2be94a1: C10's chains re-entered each value as text; it gained chains through `ans` via rink_core::eval on a context that keeps its previous answer, for all 6^3 scale triples; now caught by quick"),
 "C11-w8-degree-suffix-over-a-fraction-loses-parentheses": ("a temperature suffix directly on a division-level operator (`(1 / 2) degC`)", B),
 "C12-w8-bare-long-prefix-not-a-dependency": ("a definition that uses a long prefix bare (`abc 3 zop` with `zop- 100000`) and sorts before everything else that uses it", "MISSED by 2be94a1: every prefix in the pool stood in front of a unit; it gained `a_kilo 3 kilo` and `zop- 100000` / `a_zop 3 zop`; now caught by quick"),
 "C13-w8-currency-json-trailing-data-accepted": ("currency data that continues after a complete JSON document (a second array, `]`, `</html>`)", "MISSED by 2be94a1: the JSON family cut and edited the document, never extended it; C13 gained 14 tails (3 of white space, which must load) and a second copy; now caught by quick"),
 "C14-w8-named-zone-minus-duration-adds": ("a date written with a named zone minus a duration", B),
 "C15-w8-factorize-memo-outlives-the-query": ("`factorize` asked of two databases in one process (or before and after a load): a thread-local memo keeps quantity names", "MISSED by 2be94a1: one database per process; C15 gained two small databases with equal counts and other names, 10 x 10 query pairs in both orders, the second reply judged against a process in which nothing else was asked; now caught by quick"),
 "C16-w8-plural-retry-reaches-the-formula-reader": ("a well-formed formula with a plural s behind it (`CO2s`, `NaCls`)", "MISSED by 2be94a1: no near miss ended in s; six were added; now caught by quick"),
 "C17-w8-zero-valued-unit-not-listed": ("a unit whose value is exactly zero (`nil 0 foo`): conformance tested by division", "MISSED by 2be94a1: no zero-valued unit in any database; the categorised small databases gained one; now caught by quick"),
 "C18-w8-write-failure-keeps-the-dead-child": ("a request larger than the pipe and the child's memory, then another request: `break` became `continue`, the dead child is kept", B + " (request kind H followed by two normal requests)"),
 "C19-w8-refused-realloc-restores-with-a-store": ("two threads: a refused realloc restores usage with a store, losing whatever the other thread did in between", B + " (loom)"),
 "C20-w8-buffered-body-written-after-the-rename": ("kill -9 between the rename and the (now buffered) write of the body", B + " (kill points before every write to a descriptor of the cache directory)"),
}
for d, (needs, hist) in T.items():
    p = os.path.join(HERE, "seeded", d)
    conf = json.load(open(os.path.join(p, "confirm.json")))
    def rd(f):
        fp = os.path.join(p, f)
        return [json.loads(l) for l in open(fp) if l.strip()] if os.path.exists(fp) else []
    res, before = rd("result.jsonl"), rd("result-before-campaign8.jsonl")
    demo = [f for f in os.listdir(p) if f.endswith((".rs", ".py", ".sh"))]
    meta = {
        "property": d[:3], "campaign": 8, "breaks": "see notes.md", "needs_to_manifest": needs,
        "origin": "independent sub-agent given only the property text, the seven earlier ideas as 'already tried', and a scratch worktree",
        "confirmed_by_me": {"in": "scratch worktree /tmp/wt-confirm (removed afterwards)", "how": "tools/confirm_seeded.py",
            "demo_passes_without_change": conf["demo_passes_without_change"], "patch_applies": conf["patch_applies"],
            "repository_suite_unchanged": conf["suite_matches_baseline"], "demo_fails_with_change": conf["demo_fails_with_change"]},
        "demonstration": demo,
        "checks_run_before_campaign": [{"check": r["id"], "tier": r["tier"], "exit": r["rc"], "first_violation": r["first"][:2]} for r in before],
        "checks_run": [{"check": r["id"], "tier": r["tier"], "exit": r["rc"], "first_violation": r["first"][:2]} for r in res],
        "history": hist,
    }
    json.dump(meta, open(os.path.join(p, "meta.json"), "w"), indent=1, ensure_ascii=False)
    ok = all(meta["confirmed_by_me"][k] for k in ("demo_passes_without_change", "patch_applies", "repository_suite_unchanged", "demo_fails_with_change"))
    print(d, "confirmed" if ok else "NOT CONFIRMED", "caught" if res and res[-1]["rc"] == 1 else "MISSED", "| before:", "caught" if before and before[-1]["rc"] == 1 else "missed")
rows = ["| `%s` | %s | %s | %s |" % (d, d[:3], T[d][0].replace("|", "\\|"), T[d][1].replace("|", "\\|")) for d in T]
open(os.path.join(HERE, "seeded", "README-w8-table.md"), "w").write("\n".join(rows) + "\n")
