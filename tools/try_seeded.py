#!/usr/bin/env python3
"""Applies a seeded property-breaking patch to /repo, runs the named checks, and reverts.
usage: tools/try_seeded.py <patch.diff> <ID> [<ID>...] [--thorough-if-missed]
Prints one JSON line per check: {"id", "tier", "rc", "violations": [...first lines...]}.
/repo must be clean before and is clean afterwards."""
import json, subprocess, sys, os
HERE = os.path.dirname(os.path.dirname(os.path.abspath(__file__)))
args = [a for a in sys.argv[1:] if not a.startswith("--")]
deep = "--thorough-if-missed" in sys.argv
patch, ids = os.path.abspath(args[0]), args[1:]
def sh(cmd, **kw):
    return subprocess.run(cmd, shell=True, capture_output=True, text=True, **kw)
if sh("git -C /repo status --porcelain").stdout.strip():
    print("refusing: /repo is not clean", file=sys.stderr); sys.exit(2)
r = sh("git -C /repo apply --whitespace=nowarn %s" % patch)
if r.returncode != 0:
    print("patch does not apply: " + r.stderr, file=sys.stderr); sys.exit(2)
out = []
try:
    for i in ids:
        for tier in (["quick", "thorough"] if deep else ["quick"]):
            p = sh("./check %s --tier %s" % (i, tier), cwd=HERE)
            v = [l for l in p.stdout.splitlines() if l.startswith("VIOLATION")]
            detail = [l.strip() for l in p.stderr.splitlines() if l.strip().startswith(("sig:", "case:"))][:6]
            rec = {"id": i, "tier": tier, "rc": p.returncode, "violation_lines": len(v), "first": detail}
            out.append(rec)
            print(json.dumps(rec))
            if p.returncode != 0:
                break
finally:
    sh("git -C /repo apply -R --whitespace=nowarn %s" % patch)
    sh("git -C /repo checkout -- .")
    left = sh("git -C /repo status --porcelain").stdout.strip()
    if left:
        print("WARNING: /repo not clean after revert:\n" + left, file=sys.stderr)
